// Package model is an independent statement of goverter's documented conversion
// rules at type level: given a program model, a converter configuration and a
// method, it says whether generation must succeed, and if so which plan applies.
// It never calls goverter code.
package model

import (
	"fmt"
	"regexp"
	"strings"

	"verif/harness/spec"
)

// Settings are the inheritable settings relevant for convertibility.
type Settings struct {
	SkipCopy         bool     `json:"skipCopy,omitempty"`
	ZeroPtr          bool     `json:"zeroPtr,omitempty"` // useZeroValueOnPointerInconsistency
	EnumOff          bool     `json:"enumOff,omitempty"`
	EnumUnknown      string   `json:"enumUnknown,omitempty"`
	IgnoreMissing    bool     `json:"ignoreMissing,omitempty"`
	IgnoreUnexported bool     `json:"ignoreUnexported,omitempty"`
	MatchIgnoreCase  bool     `json:"matchIgnoreCase,omitempty"`
	UseUnderlying    bool     `json:"useUnderlying,omitempty"`
	EnumExclude      []string `json:"enumExclude,omitempty"`  // "pkgkey.Name" of excluded types
	ZeroBasic        bool     `json:"zeroBasic,omitempty"`    // update:ignoreZeroValueField:basic
	ZeroStruct       bool     `json:"zeroStruct,omitempty"`   // update:ignoreZeroValueField:struct
	ZeroNillable     bool     `json:"zeroNillable,omitempty"` // update:ignoreZeroValueField:nillable
	DefaultUpdate    bool     `json:"defaultUpdate,omitempty"`
	Wrap             string   `json:"wrap,omitempty"` // "" | errors | using (no influence on convertibility)
	WrapPkg          string   `json:"wrapPkg,omitempty"`
}

// Lines renders the settings as directive lines (without prefix).
func (s Settings) Lines() []string {
	var l []string
	if s.SkipCopy {
		l = append(l, "skipCopySameType")
	}
	if s.ZeroPtr {
		l = append(l, "useZeroValueOnPointerInconsistency")
	}
	if s.EnumOff {
		l = append(l, "enum no")
	}
	if s.EnumUnknown != "" {
		l = append(l, "enum:unknown "+s.EnumUnknown)
	}
	for _, e := range s.EnumExclude {
		l = append(l, "enum:exclude "+e)
	}
	if s.IgnoreMissing {
		l = append(l, "ignoreMissing")
	}
	if s.IgnoreUnexported {
		l = append(l, "ignoreUnexported")
	}
	if s.MatchIgnoreCase {
		l = append(l, "matchIgnoreCase")
	}
	if s.UseUnderlying {
		l = append(l, "useUnderlyingTypeMethods")
	}
	switch {
	case s.ZeroBasic && s.ZeroStruct && s.ZeroNillable:
		l = append(l, "update:ignoreZeroValueField")
	default:
		if s.ZeroBasic {
			l = append(l, "update:ignoreZeroValueField:basic")
		}
		if s.ZeroStruct {
			l = append(l, "update:ignoreZeroValueField:struct")
		}
		if s.ZeroNillable {
			l = append(l, "update:ignoreZeroValueField:nillable")
		}
	}
	if s.DefaultUpdate {
		l = append(l, "default:update")
	}
	switch s.Wrap {
	case "errors":
		l = append(l, "wrapErrors")
	case "using":
		l = append(l, "wrapErrorsUsing "+s.WrapPkg)
	}
	return l
}

// FieldCfg is the per-target-field configuration of a method.
type FieldCfg struct {
	Ignore bool   `json:"ignore,omitempty"`
	Source string `json:"source,omitempty"` // "" | "." | dotted path
	Func   *Func  `json:"func,omitempty"`
}

// Func is a custom function (extend, map|FUNC, default).
type Func struct {
	Name     string    `json:"name"`
	Source   *spec.T   `json:"source,omitempty"` // nil: no source parameter
	Target   *spec.T   `json:"target"`
	Contexts []*spec.T `json:"contexts,omitempty"`
	Err      bool      `json:"err,omitempty"`
}

// Method is a declared converter method with its effective settings.
type Method struct {
	Name     string    `json:"name"`
	Settings Settings  `json:"settings"`
	Source   *spec.T   `json:"source"`
	Target   *spec.T   `json:"target"`
	Contexts []*spec.T `json:"contexts,omitempty"`
	Err      bool      `json:"err,omitempty"`
	Update   bool      `json:"update,omitempty"`
	// NoExec: the method is generated and compiled but not executed by the driver (its own
	// behaviour behind generated helpers is not fixed by the statements; it is there for what it
	// does to its siblings)
	NoExec  bool                 `json:"noExec,omitempty"`
	Fields  map[string]*FieldCfg `json:"fields,omitempty"`
	AutoMap []string             `json:"autoMap,omitempty"`
	EnumMap map[string]string    `json:"enumMap,omitempty"`
	// EnumTransform: configs of `enum:transform regex PATTERN REPLACEMENT`
	EnumTransform []string `json:"enumTransform,omitempty"`
	Default       *Func    `json:"default,omitempty"`
	// Roles of the declared parameters in order: source | context | target
	Roles []string `json:"roles,omitempty"`
	// FieldLines counts further method-level lines goverter treats as field settings
	// (ignoreMissing, ignoreUnexported, matchIgnoreCase, update:ignoreZeroValueField).
	FieldLines int `json:"fieldLines,omitempty"`
}

// Conv is a converter: converter-level settings, extend functions, declared methods.
type Conv struct {
	Prog     *spec.Program
	ConvPkg  string // package key declaring the converter
	OutPkg   string // package key of the output package ("" = a package of its own)
	Settings Settings
	Extends  []*Func
	Methods  []*Method
}

// Plan says how one (source, target) position is converted. Plans form a graph:
// positions converted by generated sub-methods or declared methods are references.
type Plan struct {
	Op     string      `json:"op"` // basic | share | ptr | toptr | fromptr | list | map | struct | enum | call | method | ref | under
	Elem   *Plan       `json:"elem,omitempty"`
	Key    *Plan       `json:"key,omitempty"`
	Fields []FieldPlan `json:"fields,omitempty"`
	Func   string      `json:"func,omitempty"` // call: registry name of the custom function
	Ref    string      `json:"ref,omitempty"`  // method: declared method name; ref: sub-method signature
	Enum   *EnumPlan   `json:"enum,omitempty"`
	Err    bool        `json:"err,omitempty"` // call/method: may fail
}

// FieldPlan is the plan for one target field of a struct.
type FieldPlan struct {
	Target  string   `json:"target"`
	Skip    bool     `json:"skip,omitempty"`    // left unassigned
	Whole   bool     `json:"whole,omitempty"`   // source is the whole source struct ('.')
	Path    []string `json:"path,omitempty"`    // source path (fields, last segment may be callable)
	PtrWrap bool     `json:"ptrwrap,omitempty"` // the path crossed a pointer: the selected source is a pointer, nil if an intermediate is nil
	Func    string   `json:"func,omitempty"`    // map ... | FUNC
	FuncErr bool     `json:"funcErr,omitempty"`
	FuncSrc bool     `json:"funcSrc,omitempty"` // FUNC takes the selected source
	PtrArg  bool     `json:"ptrArg,omitempty"`  // FUNC receives the address of the whole source ('.' in pointer method)
	Conv    *Plan    `json:"conv,omitempty"`
	// ZeroGuard "skip": the documented zero-value category of the selected source is
	// switched on (update:ignoreZeroValueField...), a zero source keeps the target field.
	ZeroGuard string `json:"zeroGuard,omitempty"`
}

// EnumPlan is the value mapping of an enum conversion.
type EnumPlan struct {
	Cases   []EnumCase `json:"cases"`
	Unknown string     `json:"unknown"` // @error | @panic | @ignore | target literal
}

// EnumCase maps one source constant value.
type EnumCase struct {
	Name   string `json:"name"`
	Value  string `json:"value"`  // Go literal of the source constant
	Target string `json:"target"` // @action or Go literal of the target constant
}

// Result is the outcome of planning one declared method.
type Result struct {
	Top  *Plan            `json:"top"`
	Subs map[string]*Plan `json:"subs,omitempty"`
}

// validDefault checks the signature of a default constructor against the method.
func (st *state) validDefault(m *Method) *Reject {
	f := m.Default
	if f == nil {
		return nil
	}
	if !st.contextsAvailable(f.Contexts) {
		return reject("context", "default %s needs unavailable context", f.Name)
	}
	if f.Err && !m.Err {
		return reject("error-result", "default %s returns error", f.Name)
	}
	if f.Source != nil && key(f.Source) != key(m.Source) {
		return reject("default-source", "%s != %s", key(f.Source), key(m.Source))
	}
	tk := key(m.Target)
	if key(f.Target) != tk && "*"+key(f.Target) != tk {
		return reject("default-target", "%s vs %s", key(f.Target), tk)
	}
	return nil
}

// Reject is a negative verdict with a class.
type Reject struct {
	Class string
	Msg   string
}

func (r *Reject) Error() string { return r.Class + ": " + r.Msg }

func reject(class, format string, args ...any) *Reject {
	return &Reject{Class: class, Msg: fmt.Sprintf(format, args...)}
}

type state struct {
	c       *Conv
	root    *Method // the declared method whose generation is being decided
	set     Settings
	fields  *Method // method whose field settings apply (nil behind a named boundary)
	ftarget string  // key of the struct type the field settings apply to
	owner   string  // package owning unnamed TARGET struct literals at this position
	sowner  string  // package owning unnamed SOURCE struct literals at this position
	sub     map[string]bool
	subs    map[string]*Plan
	seen    map[string]bool // named source types seen inline in the current (sub-)method
	cursig  [2]string
	depth   int
	dirty   *bool // the method being planned was marked dirty (a seen named type was met again); shared by copies of the state within one method
}

func (st *state) prog() *spec.Program { return st.c.Prog }

func key(t *spec.T) string { return t.Key_() }

// Kind helpers resolving named types.
func (st *state) under(t *spec.T) *spec.T { return st.prog().Underlying(t) }
func (st *state) named(t *spec.T) bool {
	return t.K == spec.KNamed
}

var basicKinds = map[string]string{
	"byte": "uint8", "rune": "int32",
}

func basicKind(name string) string {
	if k, ok := basicKinds[name]; ok {
		return k
	}
	return name
}

// EnumMembers returns the constant names visible to enum detection for t, nil when t is no enum.
func (c *Conv) EnumMembers(t *spec.T, set Settings) []spec.Const {
	if set.EnumOff || t.K != spec.KNamed || t.Pkg == "" {
		return nil
	}
	d := c.Prog.Decl(t)
	if d == nil {
		return nil
	}
	for _, ex := range set.EnumExclude {
		if ex == c.Prog.ImportPath(t.Pkg)+":"+t.Name {
			return nil
		}
	}
	u := c.Prog.Underlying(t)
	if u.K != spec.KBasic {
		return nil
	}
	switch basicKind(u.Name) {
	case "bool", "complex64", "complex128", "unsafe.Pointer":
		return nil
	}
	var out []spec.Const
	for _, k := range d.Consts {
		// dependencies of the converter package are known from export data only,
		// which does not carry unexported constants
		if t.Pkg != c.ConvPkg && !spec.Exported(k.Name) {
			continue
		}
		out = append(out, k)
	}
	return out
}

func (st *state) isEnumPair(src, dst *spec.T) bool {
	return len(st.c.EnumMembers(src, st.set)) > 0 && len(st.c.EnumMembers(dst, st.set)) > 0
}

func (st *state) findExtend(src, dst *spec.T) *Func {
	var hit *Func
	for _, f := range st.c.Extends {
		if f.Source != nil && key(f.Source) == key(src) && key(f.Target) == key(dst) {
			hit = f
		}
	}
	return hit
}

func (st *state) findMethod(src, dst *spec.T) *Method {
	for _, m := range st.c.Methods {
		if m.Update {
			continue
		}
		if key(m.Source) == key(src) && key(m.Target) == key(dst) {
			return m
		}
	}
	return nil
}

func (st *state) hasSig(src, dst *spec.T) bool {
	return st.findExtend(src, dst) != nil || st.findMethod(src, dst) != nil || st.sub[key(src)+"->"+key(dst)]
}

func (st *state) contextsAvailable(need []*spec.T) bool {
	for _, n := range need {
		ok := false
		for _, have := range st.root.Contexts {
			if key(have) == key(n) {
				ok = true
			}
		}
		if !ok {
			return false
		}
	}
	return true
}

// Check decides whether generating the declared method m must succeed.
func (c *Conv) Check(m *Method) *Reject {
	_, rej := c.Plan(m)
	return rej
}

// Plan decides the declared method m and returns how every position is converted.
func (c *Conv) Plan(m *Method) (*Result, *Reject) {
	st := &state{c: c, root: m, set: m.Settings, fields: m, owner: c.ConvPkg, sowner: c.ConvPkg, sub: map[string]bool{}, subs: map[string]*Plan{}, seen: map[string]bool{}}
	st.cursig = [2]string{key(m.Source), key(m.Target)}
	st.ftarget = key(m.Target)
	if u := st.under(m.Target); u.K == spec.KPtr && st.under(u.Elem).K == spec.KStruct {
		st.ftarget = key(u.Elem)
	}
	if m.hasFieldSettings() {
		u := st.under(m.Target)
		ok := u.K == spec.KStruct || (u.K == spec.KPtr && st.under(u.Elem).K == spec.KStruct)
		if !ok {
			return nil, reject("field-settings-on-non-struct", "%s", key(m.Target))
		}
	}
	res := &Result{Subs: st.subs}
	if m.Update {
		tu := st.under(m.Target)
		if tu.K != spec.KPtr || st.under(tu.Elem).K != spec.KStruct {
			return nil, reject("update-target", "target must be pointer to struct")
		}
		su := st.under(m.Source)
		src := m.Source
		srcPtr := false
		if su.K != spec.KStruct {
			if su.K == spec.KPtr && st.under(su.Elem).K == spec.KStruct {
				src = su.Elem
				srcPtr = true
			} else {
				return nil, reject("update-source", "source must be struct or pointer to struct")
			}
		}
		p, rej := st.replan(func() (*Plan, *Reject) { return st.structRule(src, tu.Elem) })
		if rej != nil {
			return nil, rej
		}
		if srcPtr {
			p = &Plan{Op: "update-ptr", Elem: p}
		}
		res.Top = p
		return res, nil
	}
	if f := st.findExtend(m.Source, m.Target); f != nil {
		if !st.contextsAvailable(f.Contexts) {
			return nil, reject("context", "extend %s needs unavailable context", f.Name)
		}
		if f.Err && !m.Err {
			return nil, reject("error-result", "delegate %s returns error", f.Name)
		}
		res.Top = &Plan{Op: "call", Func: f.Name, Err: f.Err}
		return res, nil
	}
	if rej := st.validDefault(m); rej != nil {
		return nil, rej
	}
	p, rej := st.replan(func() (*Plan, *Reject) { return st.rules(m.Source, m.Target) })
	if rej != nil {
		return nil, rej
	}
	res.Top = p
	return res, nil
}

// replan runs build and, as goverter does for a method that was marked dirty, runs it again
// with the helper methods known that the previous run created: a position that was built inline
// at first (because no helper existed yet) calls the helper in the final code.
func (st *state) replan(build func() (*Plan, *Reject)) (*Plan, *Reject) {
	if st.dirty == nil {
		st.dirty = new(bool)
	}
	p, rej := build()
	for i := 0; rej == nil && *st.dirty && i < 4; i++ {
		*st.dirty = false
		for k := range st.seen {
			delete(st.seen, k)
		}
		p, rej = build()
	}
	return p, rej
}

// position decides a nested position (everything below the top of a method).
func (st *state) position(src, dst *spec.T) (*Plan, *Reject) {
	if st.depth > 60 {
		return nil, reject("too-deep", "model recursion limit")
	}
	if f := st.findExtend(src, dst); f != nil {
		if !st.contextsAvailable(f.Contexts) {
			return nil, reject("context", "extend %s needs unavailable context", f.Name)
		}
		if f.Err && !st.root.Err {
			return nil, reject("error-result", "extend %s returns error", f.Name)
		}
		return &Plan{Op: "call", Func: f.Name, Err: f.Err}, nil
	}
	if m := st.findMethod(src, dst); m != nil {
		if !st.contextsAvailable(m.Contexts) {
			return nil, reject("context", "method %s needs unavailable context", m.Name)
		}
		if m.Err && !st.root.Err {
			return nil, reject("error-result", "method %s returns error", m.Name)
		}
		return &Plan{Op: "method", Ref: m.Name, Err: m.Err}, nil
	}
	sig := key(src) + "->" + key(dst)
	if st.sub[sig] {
		return &Plan{Op: "ref", Ref: sig}, nil
	}
	if st.boundary(src, dst) {
		st.sub[sig] = true
		inner := *st
		inner.set = st.c.Settings
		inner.fields = nil
		inner.ftarget = ""
		inner.seen = map[string]bool{}
		inner.cursig = [2]string{key(src), key(dst)}
		inner.depth++
		inner.dirty = new(bool)
		p, rej := inner.replan(func() (*Plan, *Reject) { return inner.rules(src, dst) })
		if rej != nil {
			return nil, rej
		}
		st.subs[sig] = p
		return &Plan{Op: "ref", Ref: sig}, nil
	}
	st.depth++
	defer func() { st.depth-- }()
	return st.rules(src, dst)
}

// boundary says whether the position is converted by a generated method of its own.
func (st *state) boundary(src, dst *spec.T) bool {
	su, du := st.under(src), st.under(dst)
	curPtrStruct := false
	if su.K == spec.KStruct && du.K == spec.KStruct {
		curPtrStruct = st.cursig[0] == "*"+key(src) || st.cursig[1] == "*"+key(dst)
	}
	create := false
	if st.named(src) && st.seen[key(src)] {
		// goverter marks the method it is building as dirty here: it is built again, and the
		// second build finds the helper methods the first one created (see replan)
		create = true
		if st.dirty != nil {
			*st.dirty = true
		}
	} else if !curPtrStruct {
		nonBasicNamed := func(t *spec.T) bool {
			return st.named(t) && st.under(t).K != spec.KBasic
		}
		switch {
		case nonBasicNamed(src), nonBasicNamed(dst):
			create = true
		case su.K == spec.KPtr && nonBasicNamed(su.Elem):
			create = true
		case st.isEnumPair(src, dst):
			create = true
		}
		if st.set.SkipCopy && key(src) == key(dst) {
			create = false
		}
	}
	if st.named(src) {
		st.seen[key(src)] = true
	}
	return create
}

func (st *state) overlap(src, dst *spec.T) *Reject {
	if st.under(src).K != spec.KStruct || st.under(dst).K != spec.KStruct {
		return nil
	}
	sigs := [][2]string{
		{"*" + key(src), key(dst)},
		{"*" + key(src), "*" + key(dst)},
		{key(src), "*" + key(dst)},
	}
	for _, sig := range sigs {
		if sig == st.cursig {
			continue
		}
		for _, m := range st.c.Methods {
			if m.Update {
				continue
			}
			if key(m.Source) == sig[0] && key(m.Target) == sig[1] && m.hasFieldSettings() {
				return reject("overlap", "field settings of %s would be bypassed", m.Name)
			}
		}
	}
	return nil
}

func (m *Method) hasFieldSettings() bool {
	return len(m.Fields) > 0 || len(m.AutoMap) > 0 || m.FieldLines > 0
}

// rules applies the ordered rule list at (src, dst).
func (st *state) rules(src, dst *spec.T) (*Plan, *Reject) {
	// unnamed struct literals below a named type belong to the package declaring that type
	so, do := st.sowner, st.owner
	defer func() { st.sowner, st.owner = so, do }()
	if src.K == spec.KNamed && src.Pkg != "" {
		st.sowner = src.Pkg
	}
	if dst.K == spec.KNamed && dst.Pkg != "" {
		st.owner = dst.Pkg
	}
	if r := st.overlap(src, dst); r != nil {
		return nil, r
	}
	su, du := st.under(src), st.under(dst)

	// useUnderlyingTypeMethods
	if st.set.UseUnderlying {
		srcU, dstU := false, false
		switch {
		case st.named(src) && st.hasSig(su, dst):
			srcU = true
		case st.named(src) && st.named(dst) && st.hasSig(su, du):
			srcU, dstU = true, true
		case st.named(dst) && st.hasSig(src, du):
			dstU = true
		}
		if srcU || dstU {
			if st.isEnumPair(src, dst) {
				return nil, reject("enum-underlying-conflict", "%s -> %s", key(src), key(dst))
			}
			is, id := src, dst
			if srcU {
				is = su
			}
			if dstU {
				id = du
			}
			p, rej := st.position(is, id)
			if rej != nil {
				return nil, rej
			}
			return &Plan{Op: "under", Elem: p}, nil
		}
	}
	// skipCopySameType
	if st.set.SkipCopy && key(src) == key(dst) {
		return &Plan{Op: "share"}, nil
	}
	// enum
	if st.isEnumPair(src, dst) {
		return st.enumRule(src, dst)
	}
	sp, dp := su.K == spec.KPtr, du.K == spec.KPtr
	switch {
	case sp && dp:
		p, rej := st.position(su.Elem, du.Elem)
		return wrap("ptr", p, rej)
	case sp && !dp:
		if !st.set.ZeroPtr {
			return nil, reject("pointer-to-value", "%s -> %s", key(src), key(dst))
		}
		p, rej := st.position(su.Elem, dst)
		return wrap("fromptr", p, rej)
	case !sp && dp:
		p, rej := st.position(src, du.Elem)
		return wrap("toptr", p, rej)
	}
	if su.K == spec.KBasic && du.K == spec.KBasic {
		if basicKind(su.Name) == basicKind(du.Name) {
			return &Plan{Op: "basic"}, nil
		}
		return nil, reject("basic-kind", "%s -> %s", su.Name, du.Name)
	}
	if su.K == spec.KStruct && du.K == spec.KStruct {
		return st.structRule(src, dst)
	}
	if (su.K == spec.KSlice || su.K == spec.KArray) && du.K == spec.KSlice {
		p, rej := st.position(su.Elem, du.Elem)
		return wrap("list", p, rej)
	}
	if su.K == spec.KMap && du.K == spec.KMap {
		kp, rej := st.position(su.Key, du.Key)
		if rej != nil {
			return nil, rej
		}
		vp, rej := st.position(su.Elem, du.Elem)
		if rej != nil {
			return nil, rej
		}
		return &Plan{Op: "map", Key: kp, Elem: vp}, nil
	}
	return nil, reject("no-rule", "%s -> %s", key(src), key(dst))
}

func wrap(op string, p *Plan, rej *Reject) (*Plan, *Reject) {
	if rej != nil {
		return nil, rej
	}
	return &Plan{Op: op, Elem: p}, nil
}

func (st *state) enumRule(src, dst *spec.T) (*Plan, *Reject) {
	sm := st.c.EnumMembers(src, st.set)
	dm := st.c.EnumMembers(dst, st.set)
	dset := map[string]string{}
	for _, k := range dm {
		dset[k.Name] = k.Value
	}
	var emap map[string]string
	transformed := map[string]string{}
	if st.fields != nil && st.ftarget == key(dst) {
		emap = st.fields.EnumMap
		for _, cfg := range st.fields.EnumTransform {
			parts := strings.Split(cfg, " ")
			if len(parts) != 2 {
				return nil, reject("enum-transform-config", "%q", cfg)
			}
			re, err := regexp.Compile(parts[0])
			if err != nil {
				return nil, reject("enum-transform-config", "%q", cfg)
			}
			n := 0
			for _, k := range sm {
				tk := re.ReplaceAllString(k.Name, parts[1])
				if _, ok := dset[tk]; ok {
					transformed[k.Name] = tk
					n++
				}
			}
			if n == 0 {
				return nil, reject("enum-transform-empty", "%q maps nothing", cfg)
			}
		}
	}
	used := map[string]bool{}
	byValue := map[string]string{} // source value -> target (name or action)
	ep := &EnumPlan{}
	lit := func(target string) string {
		if strings.HasPrefix(target, "@") {
			return target
		}
		return dset[target]
	}
	// members that the output package cannot name
	for _, k := range sm {
		if !spec.Exported(k.Name) && src.Pkg != st.c.OutPkg {
			return nil, reject("enum-unexported-member", "%s.%s is not accessible from the output package", key(src), k.Name)
		}
	}
	sorted := append([]spec.Const{}, sm...)
	for i := 1; i < len(sorted); i++ {
		for j := i; j > 0 && sorted[j].Name < sorted[j-1].Name; j-- {
			sorted[j], sorted[j-1] = sorted[j-1], sorted[j]
		}
	}
	for _, k := range sorted {
		target, ok := emap[k.Name]
		if ok {
			used[k.Name] = true
		} else if tk, ok := transformed[k.Name]; ok {
			target = tk
		} else {
			target = k.Name
		}
		if strings.HasPrefix(target, "@") {
			if target == "@error" && !st.root.Err {
				return nil, reject("enum-error-action", "no error result")
			}
		} else if _, ok := dset[target]; !ok {
			return nil, reject("enum-missing-target", "%s has no member %s", key(dst), target)
		}
		if prev, ok := byValue[k.Value]; ok {
			pv, pa := dset[prev], strings.HasPrefix(prev, "@")
			tv, ta := dset[target], strings.HasPrefix(target, "@")
			if (pa || ta) && prev != target {
				return nil, reject("enum-duplicate-mismatch", "%s", k.Name)
			}
			if !pa && !ta && pv != tv {
				return nil, reject("enum-duplicate-mismatch", "%s", k.Name)
			}
		} else {
			byValue[k.Value] = target
			ep.Cases = append(ep.Cases, EnumCase{Name: k.Name, Value: k.Value, Target: lit(target)})
		}
	}
	unknown := st.set.EnumUnknown
	switch {
	case unknown == "":
		return nil, reject("enum-unknown-missing", "enum:unknown not configured")
	case unknown == "@error":
		if !st.root.Err {
			return nil, reject("enum-error-action", "no error result")
		}
	case strings.HasPrefix(unknown, "@"):
	default:
		if _, ok := dset[unknown]; !ok {
			return nil, reject("enum-missing-target", "unknown key %s", unknown)
		}
	}
	ep.Unknown = lit(unknown)
	for k := range emap {
		if !used[k] {
			return nil, reject("enum-unused-key", "%s", k)
		}
	}
	return &Plan{Op: "enum", Enum: ep}, nil
}

// ---------------------------------------------------------------------------
// struct rule

type srcMatch struct {
	path []string
}

// fieldOwner returns the package owning the fields of struct type t.
func (st *state) fieldOwner(t *spec.T) string {
	cur := t
	for i := 0; i < 20 && cur.K == spec.KNamed; i++ {
		d := st.prog().Decl(cur)
		if d == nil {
			break
		}
		if d.U.K != spec.KNamed {
			return cur.Pkg
		}
		cur = d.U
	}
	return st.owner
}

// srcFieldOwner returns the package owning the fields of source struct type t.
func (st *state) srcFieldOwner(t *spec.T) string {
	if t.K == spec.KNamed {
		saved := st.owner
		st.owner = st.sowner
		o := st.fieldOwner(t)
		st.owner = saved
		return o
	}
	return st.sowner
}

type member struct {
	name   string
	t      *spec.T // field type, or result type for callables
	call   bool
	err    bool
	params int
}

// members lists fields and (for named types) methods of struct type t.
func (st *state) members(t *spec.T) []member {
	u := st.under(t)
	var out []member
	named := st.named(t)
	for _, f := range u.Fields {
		name := f.Name
		if f.Embedded {
			name = embeddedName(f.T)
		}
		m := member{name: name, t: f.T}
		if fu := st.under(f.T); fu.K == spec.KFunc && named {
			m.call = true
			m.t, m.err, m.params = parseFuncText(fu.Name)
		}
		out = append(out, m)
	}
	if named {
		if d := st.prog().Decl(t); d != nil {
			for _, tm := range d.Methods {
				out = append(out, member{name: tm.Name, t: tm.Result, call: true, err: tm.Err})
			}
		}
	}
	return out
}

func embeddedName(t *spec.T) string {
	if t.K == spec.KPtr {
		return embeddedName(t.Elem)
	}
	return t.Name
}

// parseFuncText understands the few func literal texts the generators use.
func parseFuncText(text string) (*spec.T, bool, int) {
	// forms: "func() T" and "func() (T, error)" with basic T
	rest := strings.TrimPrefix(text, "func(")
	i := strings.Index(rest, ")")
	params := 0
	if strings.TrimSpace(rest[:i]) != "" {
		params = strings.Count(rest[:i], ",") + 1
	}
	res := strings.TrimSpace(rest[i+1:])
	if res == "" {
		return nil, false, params
	}
	if strings.HasPrefix(res, "(") {
		inner := strings.TrimSuffix(strings.TrimPrefix(res, "("), ")")
		parts := strings.Split(inner, ",")
		t := strings.TrimSpace(parts[0])
		return spec.Basic(t), len(parts) == 2 && strings.TrimSpace(parts[1]) == "error", params
	}
	return spec.Basic(res), false, params
}

func (st *state) findAll(t *spec.T, prefix []string, name string, ignoreCase bool) (exact *srcMatch, inexact []*srcMatch) {
	for _, m := range st.members(t) {
		if m.name == name {
			return &srcMatch{path: append(append([]string{}, prefix...), m.name)}, inexact
		}
		if ignoreCase && strings.EqualFold(m.name, name) {
			inexact = append(inexact, &srcMatch{path: append(append([]string{}, prefix...), m.name)})
		}
	}
	return nil, inexact
}

type autoSrc struct {
	path []string
	t    *spec.T
}

func (st *state) exactMember(t *spec.T, name string) *member {
	for _, m := range st.members(t) {
		if m.name == name {
			mm := m
			return &mm
		}
	}
	return nil
}

func (st *state) structRule(src, dst *spec.T) (*Plan, *Reject) {
	du := st.under(dst)
	var fm *Method
	if st.fields != nil && st.ftarget == key(dst) {
		fm = st.fields
	}
	// autoMap sources
	var autos []autoSrc
	if fm != nil {
		for _, path := range fm.AutoMap {
			cur := src
			segs := strings.Split(path, ".")
			for _, seg := range segs {
				if st.under(cur).K != spec.KStruct {
					return nil, reject("automap", "%q: not a struct", seg)
				}
				m := st.exactMember(cur, seg)
				if m == nil {
					return nil, reject("automap", "%q does not exist", seg)
				}
				cur = m.t
				if m.call {
					return nil, reject("automap", "%q is not a struct or struct pointer", seg)
				}
				cu := st.under(cur)
				switch {
				case cu.K == spec.KPtr && st.under(cu.Elem).K == spec.KStruct:
					cur = st.under(cu.Elem) // the unnamed struct: methods are not searched below
				case cu.K == spec.KStruct:
				default:
					return nil, reject("automap", "%q is not a struct or struct pointer", seg)
				}
			}
			autos = append(autos, autoSrc{path: segs, t: cur})
		}
	}
	defined := map[string]bool{}
	if fm != nil {
		for name := range fm.Fields {
			defined[name] = true
		}
	}
	owner := st.fieldOwner(dst)
	plan := &Plan{Op: "struct"}
	for _, tf := range du.Fields {
		name := tf.Name
		if tf.Embedded {
			name = embeddedName(tf.T)
		}
		delete(defined, name)
		var fc *FieldCfg
		if fm != nil {
			fc = fm.Fields[name]
		}
		if fc == nil {
			fc = &FieldCfg{}
		}
		if fc.Ignore {
			plan.Fields = append(plan.Fields, FieldPlan{Target: name, Skip: true})
			continue
		}
		if !spec.Exported(name) && st.set.IgnoreUnexported {
			plan.Fields = append(plan.Fields, FieldPlan{Target: name, Skip: true})
			continue
		}
		if !spec.Exported(name) && owner != st.c.OutPkg {
			return nil, reject("unexported-target", "field %s", name)
		}
		if fc.Func != nil && fc.Func.Source == nil {
			if !st.contextsAvailable(fc.Func.Contexts) {
				return nil, reject("context", "map func %s", fc.Func.Name)
			}
			if fc.Func.Err && !st.root.Err {
				return nil, reject("error-result", "map func %s returns error", fc.Func.Name)
			}
			if key(fc.Func.Target) != key(tf.T) {
				return nil, reject("map-func-target", "%s", fc.Func.Name)
			}
			plan.Fields = append(plan.Fields, FieldPlan{Target: name, Func: fc.Func.Name, FuncErr: fc.Func.Err})
			continue
		}
		fp, next, skip, rej := st.mapField(fc, name, src, autos, fc.Func != nil)
		if rej != nil {
			return nil, rej
		}
		if skip {
			plan.Fields = append(plan.Fields, FieldPlan{Target: name, Skip: true})
			continue
		}
		if fc.Func != nil {
			if !st.contextsAvailable(fc.Func.Contexts) {
				return nil, reject("context", "map func %s", fc.Func.Name)
			}
			if fc.Func.Err && !st.root.Err {
				return nil, reject("error-result", "map func %s returns error", fc.Func.Name)
			}
			ptrArg := fc.Source == "." && key(fc.Func.Source) == "*"+key(src) && st.cursig[0] == "*"+key(src)
			if key(fc.Func.Source) != key(next) && !ptrArg {
				return nil, reject("map-func-source", "%s: %s != %s", fc.Func.Name, key(fc.Func.Source), key(next))
			}
			if key(fc.Func.Target) != key(tf.T) {
				return nil, reject("map-func-target", "%s", fc.Func.Name)
			}
			fp.Func, fp.FuncErr, fp.FuncSrc, fp.PtrArg = fc.Func.Name, fc.Func.Err, true, ptrArg
			fp.ZeroGuard = st.zeroGuard(next)
			plan.Fields = append(plan.Fields, *fp)
			continue
		}
		inner := *st
		inner.owner = owner
		inner.sowner = st.srcFieldOwner(src)
		conv, rej := inner.position(next, tf.T)
		if rej != nil {
			return nil, rej
		}
		fp.Conv = conv
		fp.ZeroGuard = st.zeroGuard(next)
		plan.Fields = append(plan.Fields, *fp)
	}
	for name := range defined {
		return nil, reject("unknown-target-field", "%s", name)
	}
	return plan, nil
}

// zeroGuard says whether the zero-value category of a source of type t is switched on.
func (st *state) zeroGuard(t *spec.T) string {
	u := st.under(t)
	on := false
	switch u.K {
	case spec.KBasic:
		on = st.set.ZeroBasic
	case spec.KStruct:
		on = st.set.ZeroStruct
	case spec.KPtr, spec.KSlice, spec.KMap, spec.KChan, spec.KFunc, spec.KIface:
		on = st.set.ZeroNillable
	}
	if on {
		return "skip"
	}
	return ""
}

// mapField resolves the source for one target field and returns its type.
func (st *state) mapField(fc *FieldCfg, name string, src *spec.T, autos []autoSrc, forFunc bool) (*FieldPlan, *spec.T, bool, *Reject) {
	fp := &FieldPlan{Target: name}
	if fc.Source == "." {
		fp.Whole = true
		return fp, src, false, nil
	}
	var path []string
	if fc.Source == "" {
		exact, inexact := st.findAll(src, nil, name, st.set.MatchIgnoreCase)
		var exacts []*srcMatch
		if exact != nil {
			exacts = append(exacts, exact)
		}
		for _, a := range autos {
			e, i := st.findAll(a.t, a.path, name, st.set.MatchIgnoreCase)
			if e != nil {
				exacts = append(exacts, e)
			}
			inexact = append(inexact, i...)
		}
		matches := exacts
		if len(matches) == 0 {
			matches = inexact
		}
		switch len(matches) {
		case 1:
			path = matches[0].path
		case 0:
			if st.set.IgnoreMissing && !forFunc {
				return nil, nil, true, nil
			}
			return nil, nil, false, reject("missing-source-field", "%s", name)
		default:
			return nil, nil, false, reject("ambiguous-source-field", "%s", name)
		}
	} else {
		path = strings.Split(fc.Source, ".")
	}
	cur := src
	crossedPtr := false
	var last *member
	for _, seg := range path {
		cu := st.under(cur)
		if cu.K == spec.KPtr {
			crossedPtr = true
			cur = cu.Elem
		}
		if st.under(cur).K != spec.KStruct {
			return nil, nil, false, reject("map-path", "cannot access %q", seg)
		}
		m := st.exactMember(cur, seg)
		if m == nil {
			return nil, nil, false, reject("map-path", "%q does not exist", seg)
		}
		if !spec.Exported(m.name) && st.srcFieldOwner(cur) != st.c.OutPkg {
			// reading an unexported field from another package cannot compile
			return nil, nil, false, reject("unexported-source", "field %s", m.name)
		}
		last = m
		cur = m.t
	}
	if last != nil && last.call {
		if last.params > 0 && len(st.root.Contexts) == 0 {
			return nil, nil, false, reject("struct-method", "method with parameters")
		}
		if last.t == nil {
			return nil, nil, false, reject("struct-method", "no result")
		}
		if last.err && !st.root.Err {
			return nil, nil, false, reject("error-result", "struct method returns error")
		}
	}
	if crossedPtr && st.under(cur).K != spec.KPtr {
		cur = spec.Ptr(cur)
		fp.PtrWrap = true
	}
	fp.Path = path
	return fp, cur, false, nil
}
