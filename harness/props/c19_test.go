package props

import (
	"fmt"
	"sort"
	"strings"
	"testing"

	"github.com/jmattheis/goverter/comments"
	"pgregory.net/rapid"

	"verif/harness/vh"
)

// layoutFile is a generated source file together with what an independent reading of
// the comment layout says goverter must extract from it.
type layoutFile struct {
	Source string    `json:"source"`
	Expect []expConv `json:"expect"`
	Error  string    `json:"error,omitempty"` // non-empty: a wrong-kind marker, ParseDocs must fail
	Styles []string  `json:"styles,omitempty"`
}

type expConv struct {
	Name    string              `json:"name"` // interface name, "" for variables
	Lines   []string            `json:"lines"`
	Methods map[string][]string `json:"methods"`
}

type commentGen struct {
	rt     *rapid.T
	styles map[string]bool
	n      int
}

func (g *commentGen) pick(n int, l string) int { return rapid.IntRange(0, n-1).Draw(g.rt, l) }
func (g *commentGen) coin(l string) bool       { return rapid.Bool().Draw(g.rt, l) }

var settingTexts = []string{"map A B", "ignore X", "skipCopySameType", "extend Foo  Bar", "name  Impl", "wrapErrors no", "enum:unknown @ignore", "map Nested.X Y | F", "x", "", "output:file ./a b.go", "matchIgnoreCase\t yes", "ünïcode ✓"}

// docItem renders one piece of a doc comment and returns the setting lines it contributes.
func (g *commentGen) docItem(indent string, mustDirective bool) (string, []string) {
	g.n++
	kind := g.pick(10, "item-kind")
	if mustDirective && kind >= 6 {
		kind = g.pick(6, "item-kind-directive")
	}
	text := rapid.SampledFrom(settingTexts).Draw(g.rt, "setting-text")
	setting := strings.TrimRight("goverter:"+text, " \t")
	value := strings.TrimPrefix(setting, "goverter:")
	switch kind {
	case 0:
		g.styles["line-space"] = true
		return indent + "// goverter:" + text + "\n", []string{value}
	case 1:
		g.styles["line-directive"] = true
		return indent + "//goverter:" + text + "\n", []string{value}
	case 2:
		g.styles["line-tab-or-spaces"] = true
		ws := rapid.SampledFrom([]string{"\t", "   ", " \t "}).Draw(g.rt, "ws")
		return indent + "//" + ws + "goverter:" + text + "  \n", []string{value}
	case 3:
		g.styles["block-single"] = true
		// a block comment must not end the text with a slash-star problem: texts are safe
		return indent + "/* goverter:" + text + " */\n", []string{strings.TrimRight(value, " \t")}
	case 4:
		g.styles["block-multi"] = true
		t2 := rapid.SampledFrom(settingTexts).Draw(g.rt, "setting-text2")
		v2 := strings.TrimRight(strings.TrimPrefix("goverter:"+t2, "goverter:"), " \t")
		return indent + "/*\n" + indent + "goverter:" + text + "\n" + indent + "   plain words\n\n" + indent + "\tgoverter:" + t2 + "  \n" + indent + "*/\n", []string{value, v2}
	case 5:
		g.styles["line-trailing-ws"] = true
		return indent + "// goverter:" + text + " \t \n", []string{value}
	case 6:
		g.styles["plain-text"] = true
		return indent + "// some words about goverter, not a setting: see goverter docs\n", nil
	case 7:
		g.styles["blank-comment-line"] = true
		return indent + "//\n", nil
	case 8:
		g.styles["not-at-line-start"] = true
		return indent + "// note: goverter:" + strings.ReplaceAll(text, "converter", "c") + "\n", nil
	default:
		g.styles["star-prefixed-block"] = true
		return indent + "/*\n" + indent + " * goverter:" + text + "\n" + indent + " */\n", nil
	}
}

// doc renders an attached doc comment: n items, optionally with the marker at a random place.
func (g *commentGen) doc(indent, marker string) (string, []string) {
	n := g.pick(4, "nitems")
	var parts []string
	var lines [][]string
	for i := 0; i < n; i++ {
		p, l := g.docItem(indent, false)
		// the marker text must not appear by accident
		if strings.Contains(p, "goverter:converter") || strings.Contains(p, "goverter:variables") {
			continue
		}
		parts = append(parts, p)
		lines = append(lines, l)
	}
	if marker != "" {
		pos := g.pick(len(parts)+1, "marker-pos")
		var m string
		switch g.pick(6, "marker-style") {
		case 4:
			// the marker inside a sentence: the comment still contains it (no setting line though)
			g.styles["marker-in-sentence"] = true
			m = indent + "// This one is the " + marker + " of the package.\n"
			parts = append(parts[:pos], append([]string{m}, parts[pos:]...)...)
			lines = append(lines[:pos], append([][]string{nil}, lines[pos:]...)...)
			m = ""
		case 5:
			// the marker followed by more characters: contained as well, the line is a setting line
			g.styles["marker-with-suffix"] = true
			m = indent + "// " + marker + "s\n"
			parts = append(parts[:pos], append([]string{m}, parts[pos:]...)...)
			lines = append(lines[:pos], append([][]string{{strings.TrimPrefix(marker, "goverter:") + "s"}}, lines[pos:]...)...)
			m = ""
		case 0:
			m = indent + "// " + marker + "\n"
		case 1:
			m = indent + "//" + marker + "\n"
		case 2:
			m = indent + "/* " + marker + " */\n"
		default:
			m = indent + "//\t" + marker + "  \n"
		}
		if m != "" {
			parts = append(parts[:pos], append([]string{m}, parts[pos:]...)...)
			lines = append(lines[:pos], append([][]string{{strings.TrimPrefix(marker, "goverter:")}}, lines[pos:]...)...)
		}
	}
	var flat []string
	for _, l := range lines {
		flat = append(flat, l...)
	}
	return strings.Join(parts, ""), flat
}

// noise renders comments that must not influence anything: detached by a blank line.
func (g *commentGen) detached() string {
	if !g.coin("detached") {
		return ""
	}
	g.styles["detached"] = true
	return "// goverter:converter\n// goverter:map Detached Comment\n\n"
}

func (g *commentGen) trailing() string {
	if !g.coin("trailing") {
		return ""
	}
	g.styles["trailing"] = true
	return " // goverter:ignore Trailing"
}

func genLayoutFile(rt *rapid.T, wrongKind bool) layoutFile {
	g := &commentGen{rt: rt, styles: map[string]bool{}}
	var b strings.Builder
	// comments in front of the package clause are attached to no declaration: licence text, a
	// header of another code generator, directive-looking lines, a package doc comment
	switch g.pick(6, "file-header") {
	case 1:
		g.styles["file-header:licence"] = true
		b.WriteString("// Copyright the authors. Licensed under MIT.\n\n")
	case 2:
		g.styles["file-header:other-generator"] = true
		b.WriteString("// Code generated by protoc-gen-go. DO NOT EDIT.\n\n")
	case 3:
		g.styles["file-header:directive-text"] = true
		b.WriteString("// goverter:converter\n// goverter:ignore Header\n\n")
	case 4:
		g.styles["file-header:package-doc"] = true
		b.WriteString("// Package p holds converters.\n// goverter:variables\n")
	case 5:
		g.styles["file-header:build-constraint"] = true
		b.WriteString("//go:build !never_x\n\n")
	}
	b.WriteString("package p\n\ntype In struct{ A int }\n\ntype Out struct{ A int }\n\n")
	var lf layoutFile
	ndecl := rapid.IntRange(6, 24).Draw(rt, "ndecls")
	for i := 0; i < ndecl; i++ {
		b.WriteString(g.detached())
		switch g.pick(8, "decl-kind") {
		case 0, 1: // ungrouped converter interface
			name := fmt.Sprintf("Conv%d", i)
			doc, lines := g.doc("", "goverter:converter")
			exp := expConv{Name: name, Lines: lines, Methods: map[string][]string{}}
			b.WriteString(doc)
			fmt.Fprintf(&b, "type %s interface {%s\n", name, g.trailing())
			nm := 1 + g.pick(3, "nmethods")
			for m := 0; m < nm; m++ {
				mdoc, mlines := g.doc("\t", "")
				mn := fmt.Sprintf("M%d", m)
				if g.coin("blank-before-method") {
					b.WriteString("\n")
				}
				b.WriteString(mdoc)
				fmt.Fprintf(&b, "\t%s(source In) Out%s\n", mn, g.trailing())
				exp.Methods[mn] = mlines
			}
			if g.coin("comment-in-body") {
				g.styles["in-body"] = true
				b.WriteString("\t// goverter:map InBody Comment\n")
			}
			b.WriteString("}\n\n")
			lf.Expect = append(lf.Expect, exp)
		case 2: // grouped type declaration, marker on the spec
			name := fmt.Sprintf("Conv%d", i)
			g.styles["grouped-type"] = true
			b.WriteString("// a group of types\ntype (\n")
			if g.coin("struct-first") {
				fmt.Fprintf(&b, "\t// goverter:map Not ForStructs\n\tS%d struct{ X int }\n\n", i)
			}
			doc, lines := g.doc("\t", "goverter:converter")
			exp := expConv{Name: name, Lines: lines, Methods: map[string][]string{}}
			b.WriteString(doc)
			fmt.Fprintf(&b, "\t%s interface {\n", name)
			mdoc, mlines := g.doc("\t\t", "")
			b.WriteString(mdoc)
			b.WriteString("\t\tM0(source In) Out\n\t}\n")
			exp.Methods["M0"] = mlines
			if g.coin("struct-last") {
				fmt.Fprintf(&b, "\tT%d struct{ Y int }\n", i)
			}
			b.WriteString(")\n\n")
			lf.Expect = append(lf.Expect, exp)
		case 3: // variables block
			g.styles["variables"] = true
			doc, lines := g.doc("", "goverter:variables")
			exp := expConv{Name: "", Lines: lines, Methods: map[string][]string{}}
			b.WriteString(doc)
			b.WriteString("var (\n")
			nv := 1 + g.pick(2, "nvars")
			for v := 0; v < nv; v++ {
				vdoc, vlines := g.doc("\t", "")
				vn := fmt.Sprintf("Var%d_%d", i, v)
				b.WriteString(vdoc)
				fmt.Fprintf(&b, "\t%s func(source In) Out%s\n", vn, g.trailing())
				exp.Methods[vn] = vlines
			}
			b.WriteString(")\n\n")
			lf.Expect = append(lf.Expect, exp)
		case 4: // plain declarations with directive-looking docs but no marker
			doc, _ := g.doc("", "")
			b.WriteString(doc)
			switch g.pick(4, "plain-kind") {
			case 0:
				fmt.Fprintf(&b, "type Plain%d struct{ X int }\n\n", i)
			case 1:
				fmt.Fprintf(&b, "const K%d = %d\n\n", i, i)
			case 2:
				fmt.Fprintf(&b, "var V%d = %d\n\n", i, i)
			default:
				fmt.Fprintf(&b, "type Iface%d interface{ M(source In) Out }\n\n", i)
			}
		case 5: // function with directive-looking doc and in-body comments
			doc, _ := g.doc("", "")
			b.WriteString(doc)
			fmt.Fprintf(&b, "func F%d(source In) Out {\n\t// goverter:converter\n\t// goverter:map InFunc Body\n\treturn Out{A: source.A}\n}\n\n", i)
		case 6: // ungrouped single variable with the marker
			g.styles["single-var"] = true
			doc, lines := g.doc("", "goverter:variables")
			vn := fmt.Sprintf("Single%d", i)
			b.WriteString(doc)
			fmt.Fprintf(&b, "var %s func(source In) Out\n\n", vn)
			lf.Expect = append(lf.Expect, expConv{Name: "", Lines: lines, Methods: map[string][]string{vn: nil}})
		default: // interface without marker next to a detached marker comment
			fmt.Fprintf(&b, "// goverter:converter\n\n// plain doc\ntype NoConv%d interface{ M(source In) Out }\n\n", i)
			g.styles["detached"] = true
		}
	}
	if wrongKind {
		switch g.pick(4, "wrong-kind") {
		case 0:
			b.WriteString("// goverter:converter\nconst WrongConst = 1\n")
			lf.Error = "converter marker on const"
		case 1:
			b.WriteString("// goverter:converter\nvar WrongVar = 1\n")
			lf.Error = "converter marker on var"
		case 2:
			b.WriteString("// goverter:converter\ntype WrongStruct struct{ X int }\n")
			lf.Error = "converter marker on struct type"
		default:
			b.WriteString("// goverter:variables\ntype WrongType interface{ M(source In) Out }\n")
			lf.Error = "variables marker on type"
		}
	}
	lf.Source = b.String()
	for st := range g.styles {
		lf.Styles = append(lf.Styles, st)
	}
	sort.Strings(lf.Styles)
	return lf
}

func sameLines(a, b []string) bool {
	if len(a) != len(b) {
		return false
	}
	for i := range a {
		if a[i] != b[i] {
			return false
		}
	}
	return true
}

func c19Eval(s *vh.Session, lf layoutFile) string {
	dir := s.Scratch()
	if err := vh.WriteTree(dir, map[string]string{"go.mod": "module example.com/c19\n\ngo 1.22\n", "p/p.go": lf.Source}); err != nil {
		return "INFRA: " + err.Error()
	}
	var raw []vh.RawConv
	res := vh.ParseDocsGuarded(comments.ParseDocsConfig{PackagePattern: []string{"./p"}, WorkingDir: dir, BuildTags: "goverter"})
	s.Eval(1)
	if res.Panic != "" {
		return "comments.ParseDocs panicked: " + vh.PanicSig(res.Panic)
	}
	raw = res.Convs
	if lf.Error != "" {
		if res.Err == nil {
			return lf.Error + ": accepted without an error"
		}
		return ""
	}
	if res.Err != nil {
		if strings.Contains(res.Err.Error(), "could not load package") {
			return "INFRA: generated layout does not compile: " + vh.FirstLines(res.Err.Error(), 6)
		}
		return "ParseDocs failed on a valid layout: " + vh.FirstLines(res.Err.Error(), 6)
	}
	// match by interface name; variables blocks by their method set
	keyOf := func(name string, methods map[string][]string) string {
		if name != "" {
			return name
		}
		var ms []string
		for m := range methods {
			ms = append(ms, m)
		}
		sort.Strings(ms)
		return "vars:" + strings.Join(ms, ",")
	}
	got := map[string]vh.RawConv{}
	for _, r := range raw {
		got[keyOf(r.Name, r.Methods)] = r
	}
	if len(raw) != len(lf.Expect) {
		var names []string
		for k := range got {
			names = append(names, k)
		}
		sort.Strings(names)
		return fmt.Sprintf("%d declarations carry a marker in their attached doc comment, goverter found %d converters: %v", len(lf.Expect), len(raw), names)
	}
	for _, e := range lf.Expect {
		k := keyOf(e.Name, e.Methods)
		r, ok := got[k]
		if !ok {
			return "declaration " + k + " has the marker in its attached doc comment but is no converter"
		}
		if !sameLines(r.Lines, e.Lines) {
			return fmt.Sprintf("%s: setting lines %q, the attached doc comment holds %q", k, r.Lines, e.Lines)
		}
		for m, want := range e.Methods {
			if !sameLines(r.Methods[m], want) {
				return fmt.Sprintf("%s.%s: setting lines %q, the attached doc comment holds %q", k, m, r.Methods[m], want)
			}
		}
	}
	return ""
}

func TestC19(t *testing.T) {
	s := vh.Begin(t, "C19")
	if s.ReplayIn != "" && s.ReplayTag() == "rawvalues" {
		var c rawValueCase
		if err := s.LoadReplay(&c); err != nil {
			t.Fatalf("INFRA: %v", err)
		}
		if msg := c19EvalRawValues(s, c); msg != "" {
			if strings.HasPrefix(msg, "INFRA") {
				t.Fatalf("%s", msg)
			}
			s.FailT(t, "rawvalues", c, msg)
		}
		return
	}
	if s.ReplayIn != "" && s.ReplayTag() == "funcdocs" {
		var p funcDocProgram
		if err := s.LoadReplay(&p); err != nil {
			t.Fatalf("INFRA: %v", err)
		}
		if msg := c19EvalFuncDocs(s, p); msg != "" {
			if strings.HasPrefix(msg, "INFRA") {
				t.Fatalf("%s", msg)
			}
			s.FailT(t, "funcdocs", p, msg)
		}
		return
	}
	if s.ReplayIn != "" {
		var lf layoutFile
		if err := s.LoadReplay(&lf); err != nil {
			t.Fatalf("INFRA: %v", err)
		}
		if msg := c19Eval(s, lf); msg != "" {
			if strings.HasPrefix(msg, "INFRA") {
				t.Fatalf("%s", msg)
			}
			s.FailT(t, "layout", lf, msg)
		}
		return
	}
	t.Run("funcdocs", func(t *testing.T) { c19FuncDocs(t, s) })
	t.Run("rawvalues", func(t *testing.T) { c19RawValues(t, s) })
	rapid.Check(t, func(rt *rapid.T) {
		lf := genLayoutFile(rt, rapid.IntRange(0, 4).Draw(rt, "wrong-kind") == 0)
		msg := c19Eval(s, lf)
		if strings.HasPrefix(msg, "INFRA") {
			s.Infra(msg)
			rt.Fatalf("%s", msg)
		}
		for _, st := range lf.Styles {
			s.Label("style:" + st)
		}
		if lf.Error != "" {
			s.Label("wrong-kind:" + lf.Error)
		}
		if len(lf.Styles) >= 2 {
			s.Nontrivial(lf.Source, map[string]any{"styles": lf.Styles, "converters": len(lf.Expect), "wrongKind": lf.Error})
		}
		if msg != "" {
			s.FailRapid(rt, "layout", lf, "%s", msg)
		}
	})
}
