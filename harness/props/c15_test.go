package props

import (
	"fmt"
	"go/ast"
	"go/parser"
	"go/token"
	"os"
	"path"
	"path/filepath"
	"regexp"
	"sort"
	"strings"
	"testing"

	"pgregory.net/rapid"

	"verif/harness/gen"
	"verif/harness/vh"
)

type c15Case struct {
	Tree   *gen.Tree `json:"tree"`
	Invoke string    `json:"invoke"` // root | subdir-cwd | elsewhere-cwd
}

var reNonAlnum = regexp.MustCompile(`[^a-z0-9]`)

// normName is the documented normalisation of a package path to a package name.
func normName(pkgPath string) string {
	n := strings.ToLower(path.Base(strings.TrimSuffix(pkgPath, "/")))
	n = reNonAlnum.ReplaceAllString(n, "")
	for n != "" && n[0] >= '0' && n[0] <= '9' {
		n = n[1:]
	}
	if n == "" {
		return "pkg"
	}
	return n
}

type expectedFile struct {
	Path    string
	PkgPath string
	Name    string // expected package clause
	ID      string // package identity used for the same-file rule
	Convs   []gen.LConv
}

// c15Expect computes the expected outputs from the documented rules; conflict != "" when
// two converters select the same file with different packages.
func c15Expect(t *gen.Tree, root string) (map[string]*expectedFile, string) {
	out := map[string]*expectedFile{}
	inputPkg := map[string]string{} // dir -> package name of input packages
	for _, c := range t.Convs {
		inputPkg[c.Dir] = c.PkgName
	}
	for _, c := range t.Convs {
		p := c.OutPathRel(root)
		dir := path.Dir(p)
		derived := t.Module
		if dir != "." && dir != "" {
			derived += "/" + dir
		}
		pkgPath, explicit := "", ""
		if c.OutPkg != "" {
			parts := strings.SplitN(c.OutPkg, ":", 2)
			pkgPath = parts[0]
			if len(parts) == 2 {
				explicit = parts[1]
			}
		} else if c.Name == "" {
			// variables keep their declaring package by default
			pkgPath = t.Module + "/" + c.Dir
			explicit = c.PkgName
		}
		if pkgPath == "" {
			pkgPath = derived
		}
		existing := t.Existing[dir]
		if n, ok := inputPkg[dir]; ok {
			existing = n
		}
		name, id := explicit, explicit
		if name == "" {
			name, id = existing, existing
		}
		if name == "" {
			name = normName(pkgPath)
		}
		ef := out[p]
		full := pkgPath + ":" + id
		if ef == nil {
			ef = &expectedFile{Path: p, PkgPath: pkgPath, Name: name, ID: full}
			out[p] = ef
		} else if ef.ID != full {
			return nil, fmt.Sprintf("%s: %s vs %s", p, ef.ID, full)
		}
		ef.Convs = append(ef.Convs, c)
	}
	return out, ""
}

// declared lists what an emitted file declares: struct types, functions, variables assigned in init.
func declared(src string) (pkg string, types, funcs, assigned []string, err error) {
	fset := token.NewFileSet()
	f, err := parser.ParseFile(fset, "out.go", src, parser.ParseComments)
	if err != nil {
		return "", nil, nil, nil, err
	}
	pkg = f.Name.Name
	for _, d := range f.Decls {
		switch x := d.(type) {
		case *ast.GenDecl:
			for _, sp := range x.Specs {
				if ts, ok := sp.(*ast.TypeSpec); ok {
					types = append(types, ts.Name.Name)
				}
			}
		case *ast.FuncDecl:
			if x.Recv != nil {
				continue
			}
			if x.Name.Name == "init" {
				for _, st := range x.Body.List {
					if as, ok := st.(*ast.AssignStmt); ok && len(as.Lhs) == 1 {
						switch l := as.Lhs[0].(type) {
						case *ast.Ident:
							assigned = append(assigned, l.Name)
						case *ast.SelectorExpr:
							assigned = append(assigned, l.Sel.Name)
						}
					}
				}
				continue
			}
			if !ast.IsExported(x.Name.Name) {
				continue // generated helper functions
			}
			funcs = append(funcs, x.Name.Name)
		}
	}
	sort.Strings(types)
	sort.Strings(funcs)
	sort.Strings(assigned)
	return
}

func c15Eval(s *vh.Session, c c15Case, dir string) (string, string) {
	if err := writeLayout(dir, c.Tree); err != nil {
		return "", "INFRA: " + err.Error()
	}
	// the input must compile before goverter runs
	want, conflict := c15Expect(c.Tree, dir)
	before, _ := vh.Snapshot(dir)
	var run vh.CmdResult
	switch c.Invoke {
	case "subdir-cwd":
		run = s.RunCLI(filepath.Join(dir, "alpha"), append([]string{"gen", "-cwd", ".."}, c.Tree.CLIPatterns()...)...)
	case "elsewhere-cwd":
		run = s.RunCLI(os.TempDir(), append([]string{"gen", "-cwd", dir}, c.Tree.CLIPatterns()...)...)
	case "symlink-cwd":
		// the working directory is reached through a symbolic link
		link := dir + "-link"
		_ = os.Remove(link)
		if err := os.Symlink(dir, link); err != nil {
			return "", "INFRA: " + err.Error()
		}
		defer os.Remove(link)
		run = s.RunCLI(link, append([]string{"gen"}, c.Tree.CLIPatterns()...)...)
	default:
		run = s.RunCLI(dir, append([]string{"gen"}, c.Tree.CLIPatterns()...)...)
	}
	s.Eval(1)
	after, _ := vh.Snapshot(dir)
	if run.TimedOut {
		return "", "INFRA: CLI timed out"
	}
	created, modified, removed := before.Diff(after)
	if conflict != "" {
		if run.Exit == 0 {
			return "converters select the same file with different packages (" + conflict + ") but generation succeeded", ""
		}
		if len(created)+len(modified)+len(removed) > 0 {
			return fmt.Sprintf("failing run changed the tree: %v %v %v", created, modified, removed), ""
		}
		return "", "conflict"
	}
	if run.Exit != 0 {
		return "", "discard: generation failed: " + shortErr(run.Stderr)
	}
	if len(removed) > 0 {
		return fmt.Sprintf("files removed: %v", removed), ""
	}
	touched := map[string]bool{}
	for _, p := range append(created, modified...) {
		e := after[p]
		if e.Dir {
			if _, existed := before[p]; !existed && e.Mode.Perm() != 0o755 {
				return fmt.Sprintf("new directory %s has mode %o, want 755", p, e.Mode.Perm()), ""
			}
			continue
		}
		touched[p] = true
	}
	for p := range touched {
		if _, ok := want[p]; !ok {
			var w []string
			for k := range want {
				w = append(w, k)
			}
			sort.Strings(w)
			return fmt.Sprintf("unexpected file written: %s (expected %v)", p, w), ""
		}
	}
	for p, ef := range want {
		e, ok := after[p]
		if !ok {
			return fmt.Sprintf("expected output %s was not written", p), ""
		}
		if _, existed := before[p]; !existed && e.Mode.Perm() != 0o644 {
			return fmt.Sprintf("new file %s has mode %o, want 644", p, e.Mode.Perm()), ""
		}
		raw, _ := os.ReadFile(filepath.Join(dir, p))
		pkg, types, funcs, assigned, err := declared(string(raw))
		if err != nil {
			return fmt.Sprintf("output %s is not well-formed Go: %v", p, err), ""
		}
		if pkg != ef.Name {
			return fmt.Sprintf("output %s has package clause %q, want %q", p, pkg, ef.Name), ""
		}
		var wantTypes, wantFuncs, wantAssigned []string
		for _, cv := range ef.Convs {
			idx := strings.TrimPrefix(cv.Name, "Conv")
			switch {
			case cv.Name == "":
				wantAssigned = append(wantAssigned, cv.Vars...)
			case cv.Format == "function":
				wantFuncs = append(wantFuncs, "Convert"+idx)
			case cv.Struct != "":
				wantTypes = append(wantTypes, cv.Struct)
			default:
				wantTypes = append(wantTypes, cv.Name+"Impl")
			}
		}
		sort.Strings(wantTypes)
		sort.Strings(wantFuncs)
		sort.Strings(wantAssigned)
		if fmt.Sprint(types) != fmt.Sprint(wantTypes) || fmt.Sprint(funcs) != fmt.Sprint(wantFuncs) || fmt.Sprint(assigned) != fmt.Sprint(wantAssigned) {
			return fmt.Sprintf("output %s declares types %v funcs %v init-assignments %v, want %v %v %v", p, types, funcs, assigned, wantTypes, wantFuncs, wantAssigned), ""
		}
	}
	return "", ""
}

func TestC15(t *testing.T) {
	s := vh.Begin(t, "C15")
	if s.ReplayIn != "" {
		var c c15Case
		if err := s.LoadReplay(&c); err != nil {
			t.Fatalf("INFRA: %v", err)
		}
		dir := s.Scratch()
		rebase(c.Tree, dir)
		msg, infra := c15Eval(s, c, dir)
		if strings.HasPrefix(infra, "INFRA") {
			t.Fatalf("%s", infra)
		}
		if msg != "" {
			s.FailT(t, "tree", c, msg)
		}
		return
	}
	rapid.Check(t, func(rt *rapid.T) {
		dir := s.Scratch()
		o := gen.LayoutOpts{Layouts: true, AbsRoot: dir, AllowCwd: true, SharedFile: true, Vars: true, MaxConvs: 5, ExplicitPatterns: true}
		tree := gen.Layout(rt, o)
		hasAlpha := false
		for _, cv := range tree.Convs {
			if cv.Dir == "alpha" {
				hasAlpha = true
			}
		}
		modes := []string{"root", "elsewhere-cwd"}
		physical := false
		for _, cv := range tree.Convs {
			if strings.HasPrefix(cv.OutFile, "/") {
				physical = true
			}
		}
		if !physical {
			// (an absolute output path spells the physical location; it is not mixed with a
			// working directory given through a symbolic link)
			modes = append(modes, "symlink-cwd")
		}
		if hasAlpha {
			modes = append(modes, "subdir-cwd")
		}
		c := c15Case{Tree: tree, Invoke: rapid.SampledFrom(modes).Draw(rt, "invoke")}
		msg, infra := c15Eval(s, c, dir)
		if strings.HasPrefix(infra, "INFRA") {
			s.Infra(infra)
			rt.Fatalf("%s", infra)
		}
		s.Label("invoke:" + c.Invoke)
		switch {
		case infra == "conflict":
			s.Label("same-file-different-package")
		case infra != "":
			s.Discard(1)
			s.Label(vh.FirstLines(infra, 2))
			return
		}
		nondefault := 0
		for _, cv := range tree.Convs {
			if cv.OutFile != "" || cv.OutPkg != "" {
				nondefault++
			}
			switch {
			case strings.HasPrefix(cv.OutFile, "@cwd/"):
				s.Label("outfile:@cwd")
			case strings.HasPrefix(cv.OutFile, "/"):
				s.Label("outfile:absolute")
			case strings.HasPrefix(cv.OutFile, ".."):
				s.Label("outfile:parent")
			case cv.OutFile != "":
				s.Label("outfile:relative")
			default:
				s.Label("outfile:default")
			}
			switch {
			case cv.OutPkg == "":
				s.Label("outpkg:absent")
			case strings.HasPrefix(cv.OutPkg, ":"):
				s.Label("outpkg::name")
			case strings.Contains(cv.OutPkg, ":"):
				s.Label("outpkg:path:name")
			default:
				s.Label("outpkg:path")
			}
		}
		if len(tree.Convs) >= 2 || nondefault > 0 {
			s.Nontrivial(fmt.Sprintf("%v|%v|%s", strings.ReplaceAll(fmt.Sprint(tree.Convs), dir, "@ROOT"), tree.Existing, c.Invoke), map[string]any{"convs": strings.ReplaceAll(fmt.Sprint(tree.Convs), dir, "@ROOT"), "existing": tree.Existing, "invoke": c.Invoke})
		}
		if msg != "" {
			c.Tree = unbase(c.Tree, dir)
			s.FailRapid(rt, "tree", c, "%s", strings.ReplaceAll(msg, dir, "@ROOT"))
		}
	})
}

// unbase / rebase replace the scratch root inside a tree so that replays are relocatable.
func unbase(t *gen.Tree, dir string) *gen.Tree {
	c := cloneTree(t)
	for k, v := range c.Files {
		c.Files[k] = strings.ReplaceAll(v, dir, "@ROOT")
	}
	for i := range c.Convs {
		c.Convs[i].OutFile = strings.ReplaceAll(c.Convs[i].OutFile, dir, "@ROOT")
	}
	return c
}

func rebase(t *gen.Tree, dir string) {
	for k, v := range t.Files {
		t.Files[k] = strings.ReplaceAll(v, "@ROOT", dir)
	}
	for i := range t.Convs {
		t.Convs[i].OutFile = strings.ReplaceAll(t.Convs[i].OutFile, "@ROOT", dir)
	}
}
