package props

import (
	"embed"
	"fmt"
	"go/ast"
	"go/parser"
	"go/token"
	"os"
	"path/filepath"
	"sort"
	"strings"
	"sync"
	"testing"

	"github.com/jmattheis/goverter/config"
	"pgregory.net/rapid"

	"verif/harness/vh"
)

//go:embed testdata/c12base
var c12base embed.FS

type settingProbe struct {
	Key     string   // setting key
	Conv    string   // probe converter
	Values  []string // value-typed: two values; bool: nil
	Default string   // effective default: "off"/"on" for bool, "" for value-typed
	// Good: generation of a probe method succeeds iff its effective value is Good ("" = always succeeds)
	Good string
	// NestedM1: both probe methods reach the SAME enum pair at a nested position. An enum
	// pair is converted by a generated method that carries the converter-level settings, and
	// it only is an enum pair in a method whose own value is on: the enum conversion happens
	// (and fails for want of enum:unknown) iff method value and converter-level value are on.
	NestedM1 bool
	// Marker: substring of the emitted method that is present iff the effective value is the key
	Marker map[string]string
}

var c12Probes = []settingProbe{
	{Key: "useZeroValueOnPointerInconsistency", Conv: "PZeroPtr", Default: "off", Good: "on"},
	{Key: "skipCopySameType", Conv: "PSkipCopy", Default: "off", Good: "on"},
	{Key: "ignoreMissing", Conv: "PIgnoreMissing", Default: "off", Good: "on"},
	{Key: "ignoreUnexported", Conv: "PIgnoreUnexported", Default: "off", Good: "on"},
	{Key: "matchIgnoreCase", Conv: "PMatchIgnoreCase", Default: "off", Good: "on"},
	{Key: "useUnderlyingTypeMethods", Conv: "PUnderlying", Default: "off", Good: "on"},
	{Key: "enum", Conv: "PEnum", Default: "on", Good: "off"},
	{Key: "enum", Conv: "PEnumShared", Default: "on", Good: "off", NestedM1: true},
	{Key: "wrapErrors", Conv: "PWrapErrors", Default: "off", Marker: map[string]string{"on": `fmt.Errorf("error setting field`}},
	{Key: "update:ignoreZeroValueField", Conv: "PZeroField", Default: "off", Marker: map[string]string{"on": "if source.A != 0 {"}},
	{Key: "update:ignoreZeroValueField:basic", Conv: "PZeroBasic", Default: "off", Marker: map[string]string{"on": "if source.A != 0 {"}},
	{Key: "update:ignoreZeroValueField:struct", Conv: "PZeroStruct", Default: "off", Marker: map[string]string{"on": "if source.S != "}},
	{Key: "update:ignoreZeroValueField:nillable", Conv: "PZeroNillable", Default: "off", Marker: map[string]string{"on": "if source.F != nil {"}},
	{Key: "default:update", Conv: "PDefaultUpdate", Default: "off", Marker: map[string]string{"on": ").A = ", "off": " = &"}},
	{Key: "enum:unknown", Conv: "PEnumUnknown", Values: []string{"@ignore", "@panic"}, Good: "*", Marker: map[string]string{"@ignore": "// ignored", "@panic": "panic(fmt.Sprintf("}},
	{Key: "wrapErrorsUsing", Conv: "PWrapErrorsUsing", Values: []string{"example.com/c12/w1", "example.com/c12/w2"}, Marker: map[string]string{"example.com/c12/w1": "w1.Wrap(", "example.com/c12/w2": "w2.Wrap("}},
	{Key: "arg:context:regex", Conv: "PContextRegex", Values: []string{"^ctx", "^nomatch"}, Good: "^ctx"},
	// the functions named by the methods' map ... | FUNC lines are classified with the value in effect for that method
	{Key: "arg:context:regex", Conv: "PContextRegexFunc", Values: []string{"^ctx", "^nomatch"}, Good: "^ctx"},
	{Key: "arg:context:regex", Conv: "PContextRegexDefault", Values: []string{"^ctx", "^nomatch"}, Good: "^ctx"},
}

// good says whether a probe method generates with the effective value eff.
func (p settingProbe) good(eff string) bool {
	switch p.Good {
	case "":
		return true
	case "*":
		return eff != "" // any configured value
	}
	return eff == p.Good
}

// funcTexts splits emitted code into the text of each generated method M1 / M2.
func funcTexts(src string) map[string]string {
	out := map[string]string{}
	fset := token.NewFileSet()
	f, err := parser.ParseFile(fset, "gen.go", src, parser.ParseComments)
	if err != nil {
		return out
	}
	for _, d := range f.Decls {
		if fd, ok := d.(*ast.FuncDecl); ok {
			out[fd.Name.Name] = src[fset.Position(fd.Pos()).Offset:fset.Position(fd.End()).Offset]
		}
	}
	return out
}

// placement: what is written at the three levels; "" = absent; bool: bare|yes|no; value: the value.
type placement struct {
	Probe  string `json:"probe"`
	PConv  string `json:"pconv,omitempty"`
	CLI    string `json:"cli"`
	Conv   string `json:"conv"`
	Method string `json:"method"`
}

func (p settingProbe) line(v string) string {
	switch v {
	case "":
		return ""
	case "bare":
		return p.Key
	}
	return p.Key + " " + v
}

func (p settingProbe) options() []string {
	if p.Values != nil {
		return append([]string{""}, p.Values...)
	}
	return []string{"", "bare", "yes", "no"}
}

// norm maps what is written to the effective value: bool -> on/off, value -> itself.
func (p settingProbe) norm(v string) string {
	if p.Values != nil {
		return v
	}
	switch v {
	case "bare", "yes":
		return "on"
	case "no":
		return "off"
	}
	return ""
}

// effective implements the documented resolution: method, else converter, else CLI, else default.
func (p settingProbe) effective(pl placement) string {
	for _, v := range []string{pl.Method, pl.Conv, pl.CLI} {
		if v != "" {
			return p.norm(v)
		}
	}
	return p.Default
}

// explicit is the method-level spelling of an effective value.
func (p settingProbe) explicit(eff string) string {
	if p.Values != nil {
		return eff
	}
	if eff == "on" {
		return "yes"
	}
	return "no"
}

func (p settingProbe) opposite(eff string) string {
	if p.Values != nil {
		if eff == p.Values[0] {
			return p.Values[1]
		}
		return p.Values[0]
	}
	if eff == "on" {
		return "off"
	}
	return "on"
}

var (
	c12Once   sync.Once
	c12Loaded *vh.Loaded
	c12Err    error
)

func c12Base(s *vh.Session) (*vh.Loaded, error) {
	c12Once.Do(func() {
		dir := s.Scratch()
		if err := copyEmbed(c12base, "testdata/c12base", dir); err != nil {
			c12Err = err
			return
		}
		c12Loaded, c12Err = vh.Load(vh.GenOpts{Dir: dir, Patterns: []string{"./p"}})
	})
	return c12Loaded, c12Err
}

type c12Result struct {
	OK    bool
	Text  string
	Err   string
	Panic bool
}

func c12Run(l *vh.Loaded, conv string, cli, convLines, m1, m2 []string) c12Result {
	idx := -1
	for i, rc := range l.Raw {
		if rc.InterfaceName == conv {
			idx = i
		}
	}
	if idx < 0 {
		return c12Result{Err: "INFRA: no converter " + conv}
	}
	res := l.PerConverterOnly(idx, cli, func(rc *config.RawConverter) {
		// settings are written before the existing lines (extend must see arg:context:regex)
		rc.Converter.Lines = append(append([]string{}, convLines...), rc.Converter.Lines...)
		for name, add := range map[string][]string{"M1": m1, "M2": m2} {
			m := rc.Methods[name]
			if conv == "PContextRegexFunc" || conv == "PContextRegexDefault" {
				// lines apply in source order: the functions of the methods' map lines are
				// classified with what is known when the map line is read
				m.Lines = append(append([]string{}, add...), m.Lines...)
			} else {
				m.Lines = append(append([]string{}, m.Lines...), add...)
			}
			rc.Methods[name] = m
		}
	})[0]
	out := c12Result{OK: res.OK(), Panic: res.Panic != ""}
	if res.Err != nil {
		out.Err = res.Err.Error()
	}
	if res.Panic != "" {
		out.Err = "PANIC " + vh.PanicSig(res.Panic)
	}
	var names []string
	for n := range res.Files {
		names = append(names, n)
	}
	sort.Strings(names)
	for _, n := range names {
		out.Text += string(res.Files[n])
	}
	return out
}

func lines(ss ...string) []string {
	var out []string
	for _, s := range ss {
		if s != "" {
			out = append(out, s)
		}
	}
	return out
}

// c12EvalPlacement checks the outcome of a placement against the documented resolution:
// absolutely (success / failure, per-method markers of the effective values) and against
// the canonical spelling of the same effective values on the methods.
func c12EvalPlacement(s *vh.Session, l *vh.Loaded, pl placement) string {
	var p settingProbe
	for _, x := range c12Probes {
		if x.Key == pl.Probe && (pl.PConv == "" || pl.PConv == x.Conv) {
			p = x
		}
	}
	eff := p.effective(pl)
	// the sibling method states its own value: the opposite of what it would inherit
	inherit := p.effective(placement{CLI: pl.CLI, Conv: pl.Conv})

	var sibEff string
	if p.Values != nil && inherit == "" {
		sibEff = p.Values[1]
	} else {
		sibEff = p.opposite(inherit)
	}
	m2 := lines(p.line(p.explicit(sibEff)))
	got := c12Run(l, p.Conv, cliLines(p, pl), lines(p.line(pl.Conv)), lines(p.line(pl.Method)), m2)
	s.Eval(1)
	if strings.HasPrefix(got.Err, "INFRA") {
		return got.Err
	}
	if got.Panic {
		return "goverter panicked: " + got.Err
	}
	wantOK := p.good(eff) && p.good(sibEff)
	desc := fmt.Sprintf("%s: method M1 has effective value %q, sibling M2 states %q", p.Key, eff, sibEff)
	if p.NestedM1 {
		wantOK = !(eff == "on" && inherit == "on") && !(sibEff == "on" && inherit == "on")
		desc += fmt.Sprintf(", converter level %q, shared nested enum pair", inherit)
	}
	if got.OK != wantOK {
		return fmt.Sprintf("%s: generation %s, expected that it %s\n%s", desc, okWord(got.OK), okWord(wantOK), vh.FirstLines(got.Err, 8))
	}
	if got.OK && p.Marker != nil {
		texts := funcTexts(got.Text)
		for name, e := range map[string]string{"M1": eff, "M2": sibEff} {
			for val, marker := range p.Marker {
				has := strings.Contains(texts[name], marker)
				if (val == e) != has {
					return fmt.Sprintf("%s: emitted method %s %s the code of value %q (%q)", desc, name, map[bool]string{true: "contains", false: "lacks"}[has], val, marker)
				}
			}
		}
	}
	if p.NestedM1 {
		return ""
	}
	// canonical spelling: the same effective values written on the methods only
	var m1 []string
	if eff != "" {
		m1 = lines(p.line(p.explicit(eff)))
	}
	want := c12Run(l, p.Conv, nil, nil, m1, m2)
	if got.OK != want.OK || (got.OK && got.Text != want.Text) {
		return fmt.Sprintf("%s: the outcome differs from the one with these values written on the methods", desc)
	}
	return ""
}

// crossKeyCase: the collective update:ignoreZeroValueField and one of its parts written at
// different levels. The collective setting stands for all three parts, so the usual rule decides
// part by part: the value written on the method beats the converter's, which beats -g.
type crossKeyCase struct {
	Part       string `json:"part"`       // basic | struct | nillable
	OuterLevel string `json:"outerLevel"` // cli | conv
	OuterKey   string `json:"outerKey"`   // "part" or "all": what the outer level writes
	OuterValue string `json:"outerValue"` // yes | no | bare
	InnerValue string `json:"innerValue"` // what the method writes with the other key
}

var crossKeyMarker = map[string]string{"basic": "if source.A != 0 {", "struct": "if source.S != ", "nillable": "if source.F != nil {"}

func c12EvalCrossKey(s *vh.Session, l *vh.Loaded, c crossKeyCase) string {
	partKey := "update:ignoreZeroValueField:" + c.Part
	allKey := "update:ignoreZeroValueField"
	outerKey, innerKey := partKey, allKey
	if c.OuterKey == "all" {
		outerKey, innerKey = allKey, partKey
	}
	val := func(key, v string) string {
		if v == "bare" {
			return key
		}
		return key + " " + v
	}
	var cli, conv []string
	if c.OuterLevel == "cli" {
		cli = []string{val(outerKey, c.OuterValue)}
	} else {
		conv = []string{val(outerKey, c.OuterValue)}
	}
	m1 := []string{val(innerKey, c.InnerValue)}
	probe := map[string]string{"basic": "PZeroBasic", "struct": "PZeroStruct", "nillable": "PZeroNillable"}[c.Part]
	got := c12Run(l, probe, cli, conv, m1, nil)
	s.Eval(1)
	if got.Panic {
		return "goverter panicked: " + got.Err
	}
	if !got.OK {
		return fmt.Sprintf("cross-key %+v: generation fails: %s", c, vh.FirstLines(got.Err, 6))
	}
	// M1: the method's own line decides the part; M2 (no line of its own) inherits the outer level
	wantM1 := c.InnerValue != "no"
	wantM2 := c.OuterValue != "no"
	texts := funcTexts(got.Text)
	marker := crossKeyMarker[c.Part]
	if has := strings.Contains(texts["M1"], marker); has != wantM1 {
		return fmt.Sprintf("%s %q at %s level, %s %q on the method: the method's own value decides the %s part, guard expected=%v present=%v", outerKey, c.OuterValue, c.OuterLevel, innerKey, c.InnerValue, c.Part, wantM1, has)
	}
	if has := strings.Contains(texts["M2"], marker); has != wantM2 {
		return fmt.Sprintf("%s %q at %s level: sibling M2 inherits it for the %s part, guard expected=%v present=%v", outerKey, c.OuterValue, c.OuterLevel, c.Part, wantM2, has)
	}
	return ""
}

// cliLines: what is given with -g for a placement. Every second placement with a -g value puts
// an unrelated `-g extend ...` in front of it: the order of -g settings among themselves must
// not decide whether the converter's own value wins.
func cliLines(p settingProbe, pl placement) []string {
	l := lines(p.line(pl.CLI))
	if len(l) > 0 && (len(pl.CLI)+len(pl.Conv)+len(pl.Method))%2 == 0 {
		return append([]string{"extend GlobalExt"}, l...)
	}
	return l
}

// c12CLI replays a placement through the real command line: the converter-level and
// method-level lines are written into the source, the CLI value is passed with -g.
func c12CLI(s *vh.Session, pl placement) string {
	var p settingProbe
	for _, x := range c12Probes {
		if x.Key == pl.Probe && (pl.PConv == "" || pl.PConv == x.Conv) {
			p = x
		}
	}
	dir := s.Scratch()
	if err := copyEmbed(c12base, "testdata/c12base", dir); err != nil {
		return "INFRA: " + err.Error()
	}
	raw, err := os.ReadFile(filepath.Join(dir, "p/conv.go"))
	if err != nil {
		return "INFRA: " + err.Error()
	}
	src := string(raw)
	start := strings.Index(src, "type "+p.Conv+" interface")
	if start < 0 {
		return "INFRA: probe converter not found"
	}
	head := strings.LastIndex(src[:start], "// goverter:converter")
	end := start + strings.Index(src[start:], "\n}\n") + 3
	block := src[head:end]
	eff := p.effective(pl)
	inherit := p.effective(placement{CLI: pl.CLI, Conv: pl.Conv})

	var sibEff string
	if p.Values != nil && inherit == "" {
		sibEff = p.Values[1]
	} else {
		sibEff = p.opposite(inherit)
	}
	if l := p.line(pl.Conv); l != "" {
		block = strings.Replace(block, "// goverter:converter\n", "// goverter:converter\n// goverter:"+l+"\n", 1)
	}
	addMethodLine := func(method, l string) {
		at := strings.Index(block, "\t"+method+"(")
		if p.Conv == "PContextRegexFunc" || p.Conv == "PContextRegexDefault" {
			// in front of the method's existing doc lines (see c12Run)
			for {
				prev := strings.LastIndex(block[:at-1], "\n") + 1
				if !strings.HasPrefix(block[prev:], "\t//") {
					break
				}
				at = prev
			}
		}
		block = block[:at] + "\t// goverter:" + l + "\n" + block[at:]
	}
	if l := p.line(pl.Method); l != "" {
		addMethodLine("M1", l)
	}
	addMethodLine("M2", p.line(p.explicit(sibEff)))
	if err := os.WriteFile(filepath.Join(dir, "p/conv.go"), []byte("package p\n\n"+block), 0o644); err != nil {
		return "INFRA: " + err.Error()
	}
	args := []string{"gen"}
	for _, l := range cliLines(p, pl) {
		args = append(args, "-g", l)
	}
	run := s.RunCLI(dir, append(args, "./p")...)
	s.Eval(1)
	wantOK := p.good(eff) && p.good(sibEff)
	if p.NestedM1 {
		wantOK = !(eff == "on" && inherit == "on") && !(sibEff == "on" && inherit == "on")
	}
	desc := fmt.Sprintf("CLI: %s: method M1 has effective value %q, sibling M2 states %q", p.Key, eff, sibEff)
	if (run.Exit == 0) != wantOK {
		return fmt.Sprintf("%s: goverter exited with %d, expected that generation %s\n%s", desc, run.Exit, okWord(wantOK), vh.FirstLines(run.Stderr, 8))
	}
	if run.Exit == 0 && p.Marker != nil {
		text, _ := os.ReadFile(filepath.Join(dir, "p/generated/generated.go"))
		texts := funcTexts(string(text))
		for name, e := range map[string]string{"M1": eff, "M2": sibEff} {
			for val, marker := range p.Marker {
				has := strings.Contains(texts[name], marker)
				if (val == e) != has {
					return fmt.Sprintf("%s: emitted method %s %s the code of value %q", desc, name, map[bool]string{true: "contains", false: "lacks"}[has], val)
				}
			}
		}
	}
	return ""
}

func okWord(ok bool) string {
	if ok {
		return "succeeds"
	}
	return "fails"
}

// invalidCase is a line that must be rejected at the place it is written.
type invalidCase struct {
	Conv  string `json:"conv"`
	Level string `json:"level"` // cli | conv | method
	Line  string `json:"line"`
	// Also: a second line elsewhere (conflicts)
	Level2 string `json:"level2,omitempty"`
	Line2  string `json:"line2,omitempty"`
}

func c12EvalInvalid(s *vh.Session, l *vh.Loaded, c invalidCase) string {
	at := func(level string) (cli, conv, m1 []string) { return }
	_ = at
	var cli, conv, m1 []string
	add := func(level, line string) {
		switch level {
		case "cli":
			cli = append(cli, line)
		case "conv":
			conv = append(conv, line)
		case "method":
			m1 = append(m1, line)
		}
	}
	if c.Line2 != "" {
		add(c.Level2, c.Line2)
	}
	add(c.Level, c.Line)
	res := c12Run(l, c.Conv, cli, conv, m1, nil)
	s.Eval(1)
	if res.Panic {
		return "goverter panicked: " + res.Err
	}
	if res.OK {
		return fmt.Sprintf("%q written at %s level was accepted", c.Line, c.Level)
	}
	// the diagnostic names where the offending line was written
	var loc string
	for _, rc := range l.Raw {
		if rc.InterfaceName == c.Conv {
			switch c.Level {
			case "conv":
				loc = rc.Converter.Location
			case "method":
				loc = rc.Methods["M1"].Location
			}
		}
	}
	if c.Level == "cli" {
		loc = "command line"
	}
	if !strings.Contains(res.Err, loc) {
		return fmt.Sprintf("%q at %s level was rejected, but the diagnostic does not name %q:\n%s", c.Line, c.Level, loc, vh.FirstLines(res.Err, 8))
	}
	return ""
}

var methodOnly = []string{"map A B", "ignore A", "autoMap A", "update target", "context ctxValue", "enum:map ColorRed ShadeRed", "enum:transform regex a b", "default NewOutDef"}
var converterOnly = []string{"name Foo", "output:file ./x.go", "output:format function", "output:package example.com/x", "output:raw func X() {}", "struct:comment hello", "enum:exclude example.com/c12/p:Color", "extend IntToString", "converter", "variables"}
var malformed = []string{"wrapErrors maybe", "wrapErrors yes no", "skipCopySameType 1", "ignoreMissing YES", "wrapErrorsUsing", "wrapErrorsUsing a b", "enum:unknown", "enum:unknown @bogus", "enum:unknown A B", "arg:context:regex (", "arg:context:regex", "bogus", "Map A B", "ignoremissing", "", "enum maybe", "default:update 0", "update:ignoreZeroValueField:basic nope", "matchIgnoreCase true"}

func TestC12(t *testing.T) {
	s := vh.Begin(t, "C12")
	l, err := c12Base(s)
	if err != nil {
		s.Infra("base program: " + err.Error())
		t.Fatalf("INFRA: base program does not load: %v", err)
	}
	if s.ReplayIn != "" {
		switch s.ReplayTag() {
		case "placement":
			var pl placement
			if err := s.LoadReplay(&pl); err != nil {
				t.Fatalf("INFRA: %v", err)
			}
			if msg := c12EvalPlacement(s, l, pl); msg != "" {
				s.FailT(t, "placement", pl, msg)
			}
		case "cli":
			var pl placement
			if err := s.LoadReplay(&pl); err != nil {
				t.Fatalf("INFRA: %v", err)
			}
			if msg := c12CLI(s, pl); msg != "" {
				s.FailT(t, "cli", pl, msg)
			}
		case "crosskey":
			var c crossKeyCase
			if err := s.LoadReplay(&c); err != nil {
				t.Fatalf("INFRA: %v", err)
			}
			if msg := c12EvalCrossKey(s, l, c); msg != "" {
				s.FailT(t, "crosskey", c, msg)
			}
		case "invalid":
			var c invalidCase
			if err := s.LoadReplay(&c); err != nil {
				t.Fatalf("INFRA: %v", err)
			}
			if msg := c12EvalInvalid(s, l, c); msg != "" {
				s.FailT(t, "invalid", c, msg)
			}
		}
		return
	}
	// probe sensitivity: each probe must tell its two values apart, otherwise the table is vacuous
	for _, p := range c12Probes {
		if p.NestedM1 {
			continue
		}
		a, b := "yes", "no"
		if p.Values != nil {
			a, b = p.Values[0], p.Values[1]
		}
		goodVal := a
		if !p.good(p.norm(a)) {
			goodVal = b
		}
		ra := c12Run(l, p.Conv, nil, nil, lines(p.line(a)), lines(p.line(goodVal)))
		rb := c12Run(l, p.Conv, nil, nil, lines(p.line(b)), lines(p.line(goodVal)))
		if ra.OK == rb.OK && ra.Text == rb.Text {
			// either the value written on the method is not in effect (a violation, reported through
			// the placement that shows it) or the probe is vacuous (a defect of this harness)
			reported := false
			opts := p.options()
			for _, cli := range opts {
				for _, cv := range opts {
					for _, m := range opts {
						pl := placement{Probe: p.Key, PConv: p.Conv, CLI: cli, Conv: cv, Method: m}
						if msg := c12EvalPlacement(s, l, pl); msg != "" && !reported {
							s.FailT(t, "placement", pl, msg)
							reported = true
						}
					}
				}
			}
			if reported {
				continue
			}
			s.Infra("probe of " + p.Key + " cannot tell its values apart")
			t.Fatalf("INFRA: probe of %s cannot tell its values apart (%v %v)\n%s\n%s", p.Key, ra.OK, rb.OK, ra.Err, rb.Err)
		}
	}
	// the complete precedence table, split over the shards
	k := 0
	total := 0
	for _, p := range c12Probes {
		opts := p.options()
		for _, cli := range opts {
			for _, cv := range opts {
				for _, m := range opts {
					total++
					k++
					if k%s.NShards != s.Shard {
						continue
					}
					pl := placement{Probe: p.Key, PConv: p.Conv, CLI: cli, Conv: cv, Method: m}
					set := 0
					for _, v := range []string{cli, cv, m} {
						if v != "" {
							set++
						}
					}
					if set >= 2 {
						s.Nontrivial(fmt.Sprintf("%+v", pl), pl)
					}
					s.Label("table:" + p.Key + "@" + p.Conv)
					if msg := c12EvalPlacement(s, l, pl); msg != "" {
						s.FailT(t, "placement", pl, msg)
					}
				}
			}
		}
	}
	// the collective zero-value setting against its parts, across levels
	if s.Shard == 0 {
		for _, part := range []string{"basic", "struct", "nillable"} {
			for _, lvl := range []string{"cli", "conv"} {
				for _, ok := range []string{"part", "all"} {
					for _, ov := range []string{"yes", "no", "bare"} {
						for _, iv := range []string{"yes", "no", "bare"} {
							c := crossKeyCase{Part: part, OuterLevel: lvl, OuterKey: ok, OuterValue: ov, InnerValue: iv}
							s.Label("crosskey")
							s.Nontrivial(fmt.Sprintf("crosskey:%+v", c), nil)
							if msg := c12EvalCrossKey(s, l, c); msg != "" {
								s.FailT(t, "crosskey", c, msg)
							}
						}
					}
				}
			}
		}
	}
	s.Extra("table_placements_total", total)
	s.Extra("exhaustive", true)
	// invalid placements (enumerated) ...
	var inv []invalidCase
	for _, line := range methodOnly {
		inv = append(inv, invalidCase{Conv: "PDefaultUpdate", Level: "conv", Line: line}, invalidCase{Conv: "PDefaultUpdate", Level: "cli", Line: line})
	}
	for _, line := range converterOnly {
		inv = append(inv, invalidCase{Conv: "PIgnoreMissing", Level: "method", Line: line})
	}
	for _, line := range malformed {
		for _, level := range []string{"cli", "conv", "method"} {
			inv = append(inv, invalidCase{Conv: "PWrapErrors", Level: level, Line: line})
		}
	}
	// unknown keys that are near misses of every known key (plural, dropped / doubled last letter,
	// extra or unknown sub-key, other case), bare and with a value that the real key would accept
	for _, key := range settingKeys {
		for _, typo := range []string{key + "s", key[:len(key)-1], key + key[len(key)-1:], key + ":x", key + ":nilable", strings.ToUpper(key[:1]) + key[1:]} {
			known := false
			for _, k := range settingKeys {
				if k == typo {
					known = true
				}
			}
			if known || typo == "" {
				continue
			}
			for _, val := range []string{"", " yes", " no"} {
				for _, level := range []string{"cli", "conv", "method"} {
					inv = append(inv, invalidCase{Conv: "PWrapErrors", Level: level, Line: typo + val})
				}
			}
		}
	}
	// output:format may not change once extend functions are known (they may take the converter
	// interface, which function output cannot pass on): the order of the two lines is validated
	inv = append(inv,
		invalidCase{Conv: "PFormatOrder", Level: "conv", Line: "output:format function", Level2: "conv", Line2: "extend ConvLast"},
		invalidCase{Conv: "PFormatOrder", Level: "conv", Line: "output:format function", Level2: "cli", Line2: "extend ConvLast"},
	)
	// settings of the generated struct have nothing to apply to when the output is functions
	for _, line := range []string{"name Foo", "struct:comment hello"} {
		for _, fl := range []string{"cli", "conv"} {
			for _, ll := range []string{"cli", "conv"} {
				if fl == "conv" && ll == "cli" {
					continue // -g lines are read first: the format would not be known yet
				}
				inv = append(inv, invalidCase{Conv: "PWrapErrors", Level: ll, Line: line, Level2: fl, Line2: "output:format function"})
			}
		}
	}
	for _, l1 := range []string{"cli", "conv", "method"} {
		for _, l2 := range []string{"cli", "conv", "method"} {
			rank := map[string]int{"cli": 0, "conv": 1, "method": 2}
			if rank[l1] > rank[l2] {
				continue
			}
			inv = append(inv,
				invalidCase{Conv: "PWrapErrors", Level2: l1, Line2: "wrapErrors", Level: l2, Line: "wrapErrorsUsing example.com/c12/w1"},
				invalidCase{Conv: "PWrapErrors", Level2: l1, Line2: "wrapErrorsUsing example.com/c12/w1", Level: l2, Line: "wrapErrors"})
		}
	}
	for i, c := range inv {
		if i%s.NShards != s.Shard {
			continue
		}
		s.Label("invalid:" + c.Level)
		s.Nontrivial(fmt.Sprintf("%+v", c), c)
		if msg := c12EvalInvalid(s, l, c); msg != "" {
			s.FailT(t, "invalid", c, msg)
		}
	}
	// ... and random malformed boolean values
	boolKeys := []string{}
	for _, p := range c12Probes {
		if p.Values == nil {
			boolKeys = append(boolKeys, p.Key)
		}
	}
	if s.CLI != "" {
		rapid.Check(t, func(rt *rapid.T) {
			p := rapid.SampledFrom(c12Probes).Draw(rt, "probe")
			opts := p.options()
			pl := placement{Probe: p.Key, PConv: p.Conv, CLI: rapid.SampledFrom(opts[1:]).Draw(rt, "cli"), Conv: rapid.SampledFrom(opts).Draw(rt, "conv"), Method: rapid.SampledFrom(opts).Draw(rt, "method")}
			s.Label("cli-replay:" + p.Key)
			s.Nontrivial("cli:"+fmt.Sprintf("%+v", pl), nil)
			if msg := c12CLI(s, pl); msg != "" {
				if strings.HasPrefix(msg, "INFRA") {
					s.Infra(msg)
					rt.Fatalf("%s", msg)
				}
				s.FailRapid(rt, "cli", pl, "%s", msg)
			}
		})
	}
	rapid.Check(t, func(rt *rapid.T) {
		for i := 0; i < 20; i++ {
			key := rapid.SampledFrom(boolKeys).Draw(rt, "key")
			val := rapid.OneOf(rapid.SampledFrom(hostile), rapid.StringMatching(`[a-zA-Z01]{1,6}`)).Draw(rt, "value")
			if f := strings.Fields(val); len(f) == 0 || (len(f) == 1 && (f[0] == "yes" || f[0] == "no")) {
				continue
			}
			if strings.ContainsAny(val, "\n\r") {
				continue
			}
			c := invalidCase{Conv: "PWrapErrors", Level: rapid.SampledFrom([]string{"cli", "conv", "method"}).Draw(rt, "level"), Line: key + " " + val}
			if key == "wrapErrors" {
				c.Conv = "PIgnoreMissing"
			}
			s.Label("invalid:random-bool-value")
			if msg := c12EvalInvalid(s, l, c); msg != "" {
				s.FailRapid(rt, "invalid", c, "%s", msg)
			}
		}
	})
}
