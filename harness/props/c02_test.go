package props

import (
	"fmt"
	"regexp"
	"strings"
	"testing"

	"pgregory.net/rapid"

	"verif/harness/gen"
	"verif/harness/vh"
)

func c02Opts(rt *rapid.T, s *vh.Session) gen.Opts {
	return gen.Opts{
		MaxDepth:      rapid.IntRange(2, 5).Draw(rt, "maxdepth"),
		SamePkg:       rapid.IntRange(0, 2).Draw(rt, "samepkg") == 0,
		Flags:         rapid.Bool().Draw(rt, "flags"),
		Arrays:        true,
		ArraysAssign:  !s.Open("F-ARRAY-ASSIGN"),
		Unexported:    rapid.Bool().Draw(rt, "unexported"),
		MaxFields:     4,
		CompositeKeys: true,
	}
}

func c02Features(c runCase) []string {
	return []string{"structural"}
}

func TestC02(t *testing.T) {
	s := vh.Begin(t, "C02")
	if s.ReplayIn != "" {
		runCaseReplay(t, s)
		return
	}
	s.ProbeFindings(t, func(f *vh.Finding, path string) { runCaseReplay(t, s) })
	values := s.Pick(100, 300)
	rapid.Check(t, func(rt *rapid.T) {
		o := c02Opts(rt, s)
		b := gen.New(rt, o)
		n := rapid.IntRange(2, 6).Draw(rt, "nmethods")
		for i := 0; i < n; i++ {
			b.Method(fmt.Sprintf("M%d", i), o.MaxDepth)
		}
		b.Conv.Settings.EnumOff = true
		b.Finish()
		if !o.ArraysAssign {
			s.Excluded("F-ARRAY-ASSIGN")
		}
		c := runCase{Conv: b.Conv, Mode: "value", Values: values, Seed: rapid.Uint64().Draw(rt, "drvseed")}
		v := executeRunCase(s, c)
		for l, k := range b.Labels {
			s.LabelN("gen:"+l, k)
		}
		handleRunVerdict(rt, s, c, v)
	})
}

// handleRunVerdict turns a run verdict into session accounting and rapid failures.
func handleRunVerdict(rt *rapid.T, s *vh.Session, c runCase, v runVerdict) {
	s.Label("run:" + v.Class)
	switch {
	case v.Class == "ok":
		account(s, "", v.Out)
	case v.Class == "infra":
		s.Infra(v.Msg)
		rt.Fatalf("INFRA: %s", v.Msg)
	case v.Class == "violation":
		account(s, "", v.Out)
		v.Feature = append(v.Feature, featuresOf(s.ID, c, v)...)
		if f := s.MatchKnown(v.Feature, v.Msg); f != nil {
			s.Known(f)
			return
		}
		s.FailRapid(rt, "run", c, "%s", v.Msg)
	default:
		s.Eval(1)
		s.Discard(1)
		s.Label("discard-detail:" + discardDetail(v.Msg))
	}
}

var reFilePos = regexp.MustCompile(`^\S+\.go:\d+:\d+: `)

// discardDetail: the first informative line of a discard reason (for compile errors the first
// error without its position, so that equal causes are counted together).
func discardDetail(msg string) string {
	for _, ln := range strings.Split(msg, "\n") {
		ln = strings.TrimSpace(ln)
		if ln == "" || strings.HasPrefix(ln, "#") {
			continue
		}
		return reFilePos.ReplaceAllString(ln, "")
	}
	return vh.FirstLines(msg, 1)
}

func runCaseReplay(t *testing.T, s *vh.Session) {
	var c runCase
	if err := s.LoadReplay(&c); err != nil {
		t.Fatalf("INFRA: %v", err)
	}
	v := executeRunCase(s, c)
	switch v.Class {
	case "ok":
		account(s, "", v.Out)
	case "violation":
		account(s, "", v.Out)
		v.Feature = featuresOf(s.ID, c, v)
		if f := s.MatchKnown(v.Feature, v.Msg); f != nil && !s.Probing() {
			s.Known(f)
			return
		}
		s.FailT(t, "run", c, v.Msg)
	case "infra":
		t.Fatalf("INFRA: %s", v.Msg)
	default:
		s.Eval(1)
		t.Logf("replay ended as %s: %s", v.Class, v.Msg)
	}
}
