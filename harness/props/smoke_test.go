package props

import (
	"testing"

	"github.com/jmattheis/goverter"
	"pgregory.net/rapid"
)

func TestSmoke(t *testing.T) {
	_ = goverter.GenerateConvertersRaw
	rapid.Check(t, func(rt *rapid.T) { _ = rapid.Int().Draw(rt, "x") })
}
