package props

import (
	"fmt"
	"regexp"
	"testing"

	"pgregory.net/rapid"

	"verif/harness/gen"
	"verif/harness/vh"
)

func TestC04(t *testing.T) {
	s := vh.Begin(t, "C04")
	if s.ReplayIn != "" {
		runCaseReplay(t, s)
		return
	}
	s.ProbeFindings(t, func(f *vh.Finding, path string) { runCaseReplay(t, s) })
	values := s.Pick(60, 200)
	rapid.Check(t, func(rt *rapid.T) {
		o := gen.Opts{
			MaxDepth:      rapid.IntRange(2, 5).Draw(rt, "maxdepth"),
			SamePkg:       rapid.IntRange(0, 2).Draw(rt, "samepkg") == 0,
			Flags:         rapid.Bool().Draw(rt, "flags"),
			SkipCopy:      rapid.IntRange(0, 2).Draw(rt, "skipcopy") == 0,
			Exotic:        rapid.Bool().Draw(rt, "exotic"),
			Arrays:        true,
			ArraysAssign:  !s.Open("F-ARRAY-ASSIGN"),
			Unexported:    rapid.Bool().Draw(rt, "unexported"),
			NoSharedAddr:  s.Open("F-SKIPCOPY-INTERIOR-PTR"),
			CompositeKeys: true,
		}
		b := gen.New(rt, o)
		n := rapid.IntRange(2, 5).Draw(rt, "nmethods")
		for i := 0; i < n; i++ {
			b.Method(fmt.Sprintf("M%d", i), o.MaxDepth)
		}
		if o.SkipCopy && b.Conv.Settings.SkipCopy && rapid.IntRange(0, 2).Draw(rt, "pointer-twin") == 0 {
			b.PointerTwin("Twin")
		}
		if !b.Conv.Settings.SkipCopy && rapid.IntRange(0, 3).Draw(rt, "shared-helper-override") == 0 {
			b.SharedHelperOverride("skipcopy")
		}
		b.Conv.Settings.EnumOff = true
		b.Finish()
		if k := b.Labels["excluded:F-SKIPCOPY-INTERIOR-PTR"]; k > 0 {
			s.Excluded("F-SKIPCOPY-INTERIOR-PTR")
		}
		c := runCase{Conv: b.Conv, Mode: "alias", Values: values, Seed: rapid.Uint64().Draw(rt, "drvseed"), Sharing: true, Race: true}
		v := executeRunCase(s, c)
		for l, k := range b.Labels {
			s.LabelN("gen:"+l, k)
		}
		if o.SkipCopy {
			s.Label("program:skipCopySameType")
		}
		handleRunVerdict(rt, s, c, v)
	})
}

var reOverlap = regexp.MustCompile(`source (?:backing array|pointee) (\S+) \[[^)]*\) overlaps result pointee (\S+) `)

var reNamedPointee = regexp.MustCompile(`^\*?[A-Za-z_]\w*\.[A-Za-z_]\w*$`)

// c04Features classifies an alias violation: the known interior-pointer finding needs
// skipCopySameType and a result pointer that points *into* a source object of another
// type (&source.F, &source[i]); anything else is a different violation.
func c04Features(c runCase, v runVerdict) []string {
	if v.Class != "violation" || !c.Conv.Settings.SkipCopy {
		return nil
	}
	m := reOverlap.FindStringSubmatch(v.Msg)
	if m == nil || m[1] == m[2] {
		return nil
	}
	if reNamedPointee.MatchString(m[2]) {
		// the finding is about unnamed T (&source.F for F []string -> *[]string); a pointer to a
		// named type is built by a generated method from a copy
		return nil
	}
	return []string{"skipcopy-interior-ptr"}
}
