package props

import (
	"fmt"
	"go/ast"
	"go/parser"
	"go/token"
	"os"
	"path"
	"path/filepath"
	"regexp"
	"sort"
	"strings"
	"testing"
	"time"

	"pgregory.net/rapid"

	"verif/harness/gen"
	"verif/harness/model"
	"verif/harness/spec"
	"verif/harness/vh"
)

// anyProgram draws a program from the whole feature mix of the generators.
func anyProgram(rt *rapid.T, s *vh.Session) (runCase, *gen.Builder) {
	format := rapid.SampledFrom([]string{"", "", "function", "variable"}).Draw(rt, "format")
	custom := rapid.Bool().Draw(rt, "custom")
	o := gen.Opts{
		MaxDepth:      rapid.IntRange(1, 4).Draw(rt, "maxdepth"),
		SamePkg:       rapid.IntRange(0, 3).Draw(rt, "samepkg") == 0,
		FieldSettings: rapid.Bool().Draw(rt, "fieldsettings"),
		Flags:         rapid.Bool().Draw(rt, "flags"),
		SkipCopy:      rapid.IntRange(0, 3).Draw(rt, "skipcopy") == 0,
		Enums:         rapid.Bool().Draw(rt, "enums"),
		Arrays:        true,
		ArraysAssign:  true,
		Exotic:        rapid.Bool().Draw(rt, "exotic"),
		Unexported:    rapid.Bool().Draw(rt, "unexported"),
		Methods:       rapid.Bool().Draw(rt, "methods"),
		Custom:        custom,
		Fallible:      custom && rapid.Bool().Draw(rt, "fallible"),
		Contexts:      2,
		ConvArg:       true,
		UseUnderlying: rapid.IntRange(0, 3).Draw(rt, "underlying") == 0,
		Format:        format,
		PkgNames:      rapid.Bool().Draw(rt, "pkgnames"),
		LocalNamePkgs: !s.Open("F-ALIAS-COLLISION"),
		TargetsInConv: rapid.IntRange(0, 5).Draw(rt, "targets-in-conv") == 0,
		MaxFields:     4,
	}
	// one program in eight concentrates on zero-value guards over structs that hold
	// interfaces / channels (comparable, but not plain data)
	zeroMix := rapid.IntRange(0, 7).Draw(rt, "zero-guard-mix") == 0
	if zeroMix {
		o.SkipCopy, o.Exotic, o.MaxDepth = true, true, 3
	}
	b := gen.New(rt, o)
	if zeroMix {
		b.ForceZeroBits = 2
	}
	b.OpenNonComparable = s.Open("F-ZERO-NONCOMPARABLE")
	b.OpenPtrSrcWhole = s.Open("F-UPDATE-PTRSRC-WHOLE")
	b.NoUnnamedUnexported = s.Open("F-UNNAMED-UNEXPORTED")
	if rapid.IntRange(0, 2).Draw(rt, "wrap") == 0 {
		b.Conv.Settings.Wrap = rapid.SampledFrom([]string{"errors", "using"}).Draw(rt, "wrap-mode")
		b.Conv.Settings.WrapPkg = b.Prog.Module + "/vwrap"
	}
	if b.Conv.Settings.SkipCopy && rapid.IntRange(0, 2).Draw(rt, "func-type-signature") == 0 {
		b.FuncTypeSignature("V0")
	}
	if custom && !zeroMix && rapid.IntRange(0, 3).Draw(rt, "recursive-late") == 0 {
		b.RecursiveLate("R0")
	}
	n := rapid.IntRange(1, 6).Draw(rt, "nmethods")
	for i := 0; i < n; i++ {
		kind := rapid.IntRange(0, 9).Draw(rt, "method-kind")
		if zeroMix {
			kind = 7
		}
		switch kind {
		case 0, 1, 2, 3:
			b.Method(fmt.Sprintf("M%d", i), o.MaxDepth)
		case 4, 5, 6:
			b.StructMethod(fmt.Sprintf("M%d", i), o.MaxDepth)
		case 7:
			if format != "variable" || true {
				b.UpdateMethod(fmt.Sprintf("U%d", i), o.MaxDepth)
			}
		case 8:
			if custom {
				b.DefaultMethod(fmt.Sprintf("D%d", i), o.MaxDepth)
			} else {
				b.Method(fmt.Sprintf("M%d", i), o.MaxDepth)
			}
		default:
			if !o.SamePkg || true {
				b.EnumProgram(gen.EnumOpts{NoUnexported: true})
				b.FinishEnums()
			}
		}
	}
	b.FinishEnums()
	b.Finish()
	c := runCase{Conv: b.Conv, Mode: "value", Values: 20, Seed: rapid.Uint64().Draw(rt, "drvseed"), Funcs: b.Funcs, Format: format}
	return c, b
}

// conformanceFile pins the declared API against the emitted code.
func conformanceFile(c runCase, spc *spec.Converter) string {
	prog := c.Conv.Prog
	conf := &spec.Package{Key: "conformance", Path: "conformance", Name: "conformance"}
	p2 := *prog
	p2.Pkgs = append(append([]*spec.Package{}, prog.Pkgs...), conf)
	var b strings.Builder
	imports := map[string]string{}
	genImport := prog.Module + "/" + c.Conv.OutPkg
	convImport := prog.ImportPath(c.Conv.ConvPkg)
	typeExpr := func(t *spec.T) string {
		e, imps := p2.TypeExpr("conformance", t)
		for path, alias := range imps {
			// aliases are per expression (x0, x1, ...): make them unique per path
			u := "p" + fmt.Sprint(len(imports))
			if old, ok := imports[path]; ok {
				u = old
			} else {
				imports[path] = u
			}
			e = strings.ReplaceAll(e, alias+".", u+"\x00")
		}
		return strings.ReplaceAll(e, "\x00", ".")
	}
	var body strings.Builder
	switch c.Format {
	case "function":
		for _, m := range spc.Methods {
			spellable := true
			for _, p := range m.Params {
				spellable = spellable && !hasUnnamedUnexported(p.T)
			}
			for _, r := range m.Results {
				spellable = spellable && !hasUnnamedUnexported(r)
			}
			if !spellable {
				// the conformance package cannot spell unnamed structs with unexported fields
				fmt.Fprintf(&body, "var _ = gen.%s\n", m.Name)
				continue
			}
			var ps, rs []string
			for _, p := range m.Params {
				ps = append(ps, typeExpr(p.T))
			}
			for _, r := range m.Results {
				rs = append(rs, typeExpr(r))
			}
			res := strings.Join(rs, ", ")
			if len(rs) > 1 {
				res = "(" + res + ")"
			}
			fmt.Fprintf(&body, "var _ func(%s) %s = gen.%s\n", strings.Join(ps, ", "), res, m.Name)
		}
	case "variable":
		fmt.Fprintf(&body, "var _ = convpkg.%s\n", spc.Methods[0].Name)
	default:
		fmt.Fprintf(&body, "var _ convpkg.%s = &gen.ConverterImpl{}\n", spc.Name)
	}
	b.WriteString("//go:build !goverter\n\npackage conformance\n\nimport (\n")
	if c.Format != "variable" {
		fmt.Fprintf(&b, "\tgen %q\n", genImport)
	}
	if c.Format != "function" {
		fmt.Fprintf(&b, "\tconvpkg %q\n", convImport)
	}
	paths := make([]string, 0, len(imports))
	for p := range imports {
		paths = append(paths, p)
	}
	sort.Strings(paths)
	for _, p := range paths {
		fmt.Fprintf(&b, "\t%s %q\n", imports[p], p)
	}
	b.WriteString(")\n\n" + body.String())
	return b.String()
}

// hasUnnamedUnexported: does the type expression contain an unnamed struct with an unexported field?
func hasUnnamedUnexported(t *spec.T) bool {
	if t == nil {
		return false
	}
	if t.K == spec.KStruct {
		for _, f := range t.Fields {
			if !spec.Exported(f.Name) || hasUnnamedUnexported(f.T) {
				return true
			}
		}
		return false
	}
	if hasUnnamedUnexported(t.Elem) || hasUnnamedUnexported(t.Key) {
		return true
	}
	for _, a := range t.Args {
		if hasUnnamedUnexported(a) {
			return true
		}
	}
	return false
}

// shadowing reports identifiers declared by emitted code that shadow another emitted
// identifier of an enclosing scope of the same function, its receiver or parameters, or
// an import name of the file.
func shadowing(src string) []string {
	fset := token.NewFileSet()
	f, err := parser.ParseFile(fset, "gen.go", src, 0)
	if err != nil {
		return []string{"does not parse: " + err.Error()}
	}
	imports := map[string]bool{}
	for _, im := range f.Imports {
		name := ""
		if im.Name != nil {
			name = im.Name.Name
		} else {
			p := strings.Trim(im.Path.Value, `"`)
			name = p[strings.LastIndex(p, "/")+1:]
		}
		imports[name] = true
	}
	var out []string
	for _, d := range f.Decls {
		fd, ok := d.(*ast.FuncDecl)
		if !ok || fd.Body == nil {
			continue
		}
		top := map[string]bool{}
		addFields := func(fl *ast.FieldList) {
			if fl == nil {
				return
			}
			for _, fld := range fl.List {
				for _, n := range fld.Names {
					if n.Name == "_" {
						continue
					}
					if top[n.Name] {
						out = append(out, fmt.Sprintf("%s: parameter %s declared twice", fd.Name.Name, n.Name))
					}
					if imports[n.Name] {
						out = append(out, fmt.Sprintf("%s: parameter %s shadows an import", fd.Name.Name, n.Name))
					}
					top[n.Name] = true
				}
			}
		}
		addFields(fd.Recv)
		addFields(fd.Type.Params)
		out = append(out, walkScopes(fd.Name.Name, fd.Body, []map[string]bool{top}, imports)...)
	}
	// function literals of init() (variables format)
	return out
}

func walkScopes(fn string, n ast.Node, scopes []map[string]bool, imports map[string]bool) []string {
	var out []string
	declare := func(name string) {
		if name == "_" {
			return
		}
		for _, sc := range scopes[:len(scopes)-1] {
			if sc[name] {
				out = append(out, fmt.Sprintf("%s: %s shadows an identifier of an enclosing scope", fn, name))
			}
		}
		if imports[name] {
			out = append(out, fmt.Sprintf("%s: %s shadows an import name", fn, name))
		}
		scopes[len(scopes)-1][name] = true
	}
	var visit func(n ast.Node)
	push := func(body func()) {
		scopes = append(scopes, map[string]bool{})
		body()
		scopes = scopes[:len(scopes)-1]
	}
	visitStmts := func(list []ast.Stmt) {
		for _, st := range list {
			visit(st)
		}
	}
	visit = func(n ast.Node) {
		switch x := n.(type) {
		case nil:
		case *ast.BlockStmt:
			push(func() { visitStmts(x.List) })
		case *ast.AssignStmt:
			for _, r := range x.Rhs {
				visit(r)
			}
			if x.Tok == token.DEFINE {
				for _, l := range x.Lhs {
					if id, ok := l.(*ast.Ident); ok && !scopes[len(scopes)-1][id.Name] {
						declare(id.Name)
					}
				}
			}
		case *ast.DeclStmt:
			if gd, ok := x.Decl.(*ast.GenDecl); ok {
				for _, sp := range gd.Specs {
					if vs, ok := sp.(*ast.ValueSpec); ok {
						for _, nm := range vs.Names {
							declare(nm.Name)
						}
					}
				}
			}
		case *ast.IfStmt:
			push(func() {
				visit(x.Init)
				visit(x.Body)
				visit(x.Else)
			})
		case *ast.ForStmt:
			push(func() {
				visit(x.Init)
				visit(x.Body)
			})
		case *ast.RangeStmt:
			push(func() {
				if x.Tok == token.DEFINE {
					if id, ok := x.Key.(*ast.Ident); ok {
						declare(id.Name)
					}
					if id, ok := x.Value.(*ast.Ident); ok {
						declare(id.Name)
					}
				}
				visit(x.Body)
			})
		case *ast.SwitchStmt:
			push(func() {
				visit(x.Init)
				for _, cc := range x.Body.List {
					push(func() { visitStmts(cc.(*ast.CaseClause).Body) })
				}
			})
		case *ast.FuncLit:
			push(func() {
				for _, fld := range x.Type.Params.List {
					for _, nm := range fld.Names {
						declare(nm.Name)
					}
				}
				visitStmts(x.Body.List)
			})
		case *ast.ExprStmt:
			visit(x.X)
		case *ast.CallExpr:
			for _, a := range x.Args {
				visit(a)
			}
		}
	}
	switch b := n.(type) {
	case *ast.BlockStmt:
		visitStmts(b.List)
	default:
		visit(n)
	}
	return out
}

// c01Eval generates, builds and inspects; it returns (violation, discard/infra note).
func c01Eval(s *vh.Session, c runCase) (string, string, *vh.RunOutcome) {
	if _, rej := vh.MethodInfos(c.Conv); rej != nil {
		return "", "discard:model-reject " + rej.Error(), nil
	}
	rs := &vh.RunSpec{Prog: c.Conv.Prog, Conv: c.Conv, Patterns: []string{"./" + c.Conv.ConvPkg}, Global: c.Global, Format: c.Format}
	var spc *spec.Converter
	for _, pk := range c.Conv.Prog.Pkgs {
		for _, cv := range pk.Converters {
			spc = cv
		}
	}
	out := s.CompileOnly(rs, func(files map[string]string) map[string]string {
		return map[string]string{"conformance/conformance.go": conformanceFile(c, spc)}
	})
	switch {
	case out.Infra != "":
		return "", "INFRA: " + out.Infra, out
	case out.Gen.Panic != "" || out.Gen.Hang:
		return "", "discard:goverter-panic " + vh.PanicSig(out.Gen.Panic), out
	case out.Gen.Err != nil:
		return "", "discard:generation-failed " + lastLines(out.Gen.Err.Error(), 3), out
	case out.BuildErr != "":
		return "goverter reported success but the module does not compile:\n" + vh.FirstLines(out.BuildErr, 12), "", out
	}
	for name, content := range out.Files {
		if sh := shadowing(content); len(sh) > 0 {
			return fmt.Sprintf("%s: %s", name, strings.Join(sh, "; ")), "", out
		}
		if msg := checkHeader(name, content, "!goverter"); msg != "" {
			return msg, "", out
		}
	}
	return "", "", out
}

var _ = model.Settings{}

func TestC01(t *testing.T) {
	s := vh.Begin(t, "C01")
	if s.ReplayIn != "" && s.ReplayTag() == "layout" {
		c01ReplayLayout(t, s)
		return
	}
	if s.ReplayIn != "" {
		var c runCase
		if err := s.LoadReplay(&c); err != nil {
			t.Fatalf("INFRA: %v", err)
		}
		msg, note, _ := c01Eval(s, c)
		s.Eval(1)
		if strings.HasPrefix(note, "INFRA") {
			t.Fatalf("%s", note)
		}
		if msg != "" {
			s.FailT(t, "prog", c, msg)
		}
		return
	}
	s.ProbeFindings(t, func(f *vh.Finding, path string) {
		if s.ReplayTag() == "layout" {
			c01ReplayLayout(t, s)
			return
		}
		var c runCase
		if err := s.LoadReplay(&c); err != nil {
			t.Fatalf("INFRA: %v", err)
		}
		if msg, _, _ := c01Eval(s, c); msg != "" {
			s.FailT(t, "prog", c, msg)
		}
	})
	t.Run("layouts", func(t *testing.T) {
		rapid.Check(t, func(rt *rapid.T) {
			dir := s.Scratch()
			o := gen.LayoutOpts{Layouts: true, AbsRoot: dir, AllowCwd: true, SharedFile: true, Vars: true, MaxConvs: 5, SamePackage: rapid.Bool().Draw(rt, "same-package"), ExplicitPatterns: true}
			tree := gen.Layout(rt, o)
			msg, note := c01Layout(s, tree, dir)
			s.Eval(1)
			if strings.HasPrefix(note, "INFRA") {
				s.Infra(note)
				rt.Fatalf("%s", note)
			}
			if note != "" {
				s.Label("layout:" + vh.FirstLines(note, 1))
				return
			}
			s.Label("layout:compiled")
			s.Nontrivial("layout:"+strings.ReplaceAll(fmt.Sprint(tree.Convs), dir, "@ROOT"), nil)
			if msg != "" {
				lc := layoutCase{Tree: unbase(tree, dir)}
				if f := s.MatchKnown(layoutFeatures(msg), msg); f != nil {
					s.Known(f)
					return
				}
				s.FailRapid(rt, "layout", lc, "%s", msg)
			}
		})
	})
	rapid.Check(t, func(rt *rapid.T) {
		c, b := anyProgram(rt, s)
		msg, note, out := c01Eval(s, c)
		s.Eval(1)
		if strings.HasPrefix(note, "INFRA") {
			s.Infra(note)
			rt.Fatalf("%s", note)
		}
		for l, k := range b.Labels {
			if strings.HasPrefix(l, "shape:") || strings.HasPrefix(l, "field:") {
				continue
			}
			s.LabelN("gen:"+l, k)
		}
		s.Label("format:" + c.Format)
		for _, f := range []string{"F-UNNAMED-UNEXPORTED", "F-ZERO-NONCOMPARABLE", "F-UPDATE-PTRSRC-WHOLE"} {
			if b.Labels["excluded:"+f] > 0 {
				s.Excluded(f)
			}
		}
		if note != "" {
			s.Discard(1)
			s.Label(vh.FirstLines(note, 1))
			return
		}
		nfiles := 0
		if out != nil {
			nfiles = len(out.Files)
		}
		if len(c.Conv.Methods) >= 2 || c.Format != "" || nfiles > 1 {
			s.Nontrivial(progSummary(c.Conv)+c.Format, progSummary(c.Conv))
		}
		if msg != "" {
			if f := s.MatchKnown(c01Features(c, msg), msg); f != nil {
				s.Known(f)
				return
			}
			s.FailRapid(rt, "prog", c, "%s", msg)
		}
	})
}

var reErrShadowOnly = regexp.MustCompile(`^[^:]+: (?:\w+: err shadows an identifier of an enclosing scope(?:; )?)+$`)

// c01Layout: trees with several converters, files and packages must compile after a CLI run.
func c01Layout(s *vh.Session, tree *gen.Tree, dir string) (string, string) {
	if err := writeLayout(dir, tree); err != nil {
		return "", "INFRA: " + err.Error()
	}
	want, conflict := c15Expect(tree, dir)
	if conflict != "" {
		return "", "discard: same file, different packages"
	}
	// two package names in one directory is a configuration the user asked for, not goverter's fault
	names := map[string]map[string]bool{}
	for _, cv := range tree.Convs {
		if names[cv.Dir] == nil {
			names[cv.Dir] = map[string]bool{}
		}
		names[cv.Dir][cv.PkgName] = true
	}
	for d, n := range tree.Existing {
		if names[d] == nil {
			names[d] = map[string]bool{}
		}
		names[d][n] = true
	}
	for f := range tree.Files {
		if strings.HasSuffix(f, "/excluded.go") {
			// only excluded while goverter runs; part of the normal build
			d := path.Dir(f)
			if names[d] == nil {
				names[d] = map[string]bool{}
			}
			names[d]["hidden"] = true
		}
	}
	for p, ef := range want {
		d := path.Dir(p)
		if names[d] == nil {
			names[d] = map[string]bool{}
		}
		names[d][ef.Name] = true
		// the package path written into the setting must be the real one
		real := tree.Module
		if d != "." {
			real += "/" + d
		}
		if ef.PkgPath != real {
			return "", "discard: output:package is not the import path of the output directory"
		}
	}
	for _, n := range names {
		if len(n) > 1 {
			return "", "discard: two package names configured for one directory"
		}
	}
	runDir := dir
	physical := false
	for _, cv := range tree.Convs {
		if strings.HasPrefix(cv.OutFile, "/") {
			// an absolute output path spells the physical location: mixing it with a logical
			// working directory is not something the statements cover
			physical = true
		}
	}
	if len(tree.Convs)%3 == 0 && !physical {
		// every third tree is generated through a symbolic link to its root
		link := dir + "-link"
		_ = os.Remove(link)
		if err := os.Symlink(dir, link); err == nil {
			defer os.Remove(link)
			runDir = link
		}
	}
	run := s.RunCLI(runDir, append([]string{"gen"}, tree.CLIPatterns()...)...)
	if run.TimedOut {
		return "", "INFRA: CLI timed out"
	}
	if run.Exit != 0 {
		return "", "discard: generation failed: " + shortErr(run.Stderr)
	}
	build := vh.RunCmd(dir, vh.GoEnv(), 10*time.Minute, "go", "build", "./...")
	if build.TimedOut || build.Err != nil {
		return "", "INFRA: go build did not run"
	}
	if build.Exit != 0 {
		return "goverter reported success but the tree does not compile:\n" + vh.FirstLines(strings.ReplaceAll(build.Stdout+build.Stderr, dir, "@ROOT"), 10), ""
	}
	// a later successful run over these outputs with the last converter removed: what it emits
	// (now shorter files) must compile as well
	if len(tree.Convs) > 1 && len(tree.Existing) == 0 {
		less := cloneTree(tree)
		less.Convs = less.Convs[:len(less.Convs)-1]
		declaring := map[string]bool{}
		for _, cv := range tree.Convs {
			declaring[cv.File] = true
		}
		for f := range less.Files {
			if declaring[f] {
				delete(less.Files, f)
				_ = os.Remove(filepath.Join(dir, f))
			}
		}
		less.Rerender()
		if err := writeLayout(dir, less); err != nil {
			return "", "INFRA: " + err.Error()
		}
		// outputs that no converter selects any more are the user's to delete
		want2, _ := c15Expect(less, dir)
		for f := range generatedFiles(dir) {
			if _, ok := want2[filepath.ToSlash(f)]; !ok {
				_ = os.Remove(filepath.Join(dir, f))
			}
		}
		run2 := s.RunCLI(dir, append([]string{"gen"}, less.CLIPatterns()...)...)
		if run2.TimedOut {
			return "", "INFRA: CLI timed out"
		}
		if run2.Exit != 0 {
			return "", "discard: regeneration failed: " + shortErr(run2.Stderr)
		}
		build2 := vh.RunCmd(dir, vh.GoEnv(), 10*time.Minute, "go", "build", "./...")
		if build2.TimedOut || build2.Err != nil {
			return "", "INFRA: go build did not run"
		}
		if build2.Exit != 0 {
			return "goverter reported success on regeneration (one converter less) but the tree does not compile:\n" + vh.FirstLines(strings.ReplaceAll(build2.Stdout+build2.Stderr, dir, "@ROOT"), 10), ""
		}
	}
	return "", ""
}

func c01Features(c runCase, msg string) []string {
	var fs []string
	if reErrShadowOnly.MatchString(msg) {
		fs = append(fs, "err-shadow")
	}
	if strings.Contains(msg, "source != (") && strings.Contains(msg, "mismatched types *") || strings.Contains(msg, "cannot use source (variable of type *") {
		for _, m := range c.Conv.Methods {
			for _, fc := range m.Fields {
				if m.Update && m.Source.K == spec.KPtr && fc != nil && fc.Source == "." {
					fs = append(fs, "update-ptrsrc-whole")
				}
			}
		}
	}
	for _, pk := range c.Conv.Prog.Pkgs {
		switch pk.Name {
		case "source", "c", "i", "key", "value", "target", "context", "err":
			if strings.Contains(msg, "does not compile") || strings.Contains(msg, "shadows an import") {
				fs = append(fs, "pkg-named-like-local")
			}
		}
	}
	if strings.Contains(msg, "/* package ") || strings.Contains(msg, "as struct{") || strings.Contains(msg, "mismatched types struct{") {
		fs = append(fs, "unnamed-unexported")
	}
	if strings.Contains(msg, "cannot be compared") || strings.Contains(msg, "incomparable") {
		fs = append(fs, "zero-noncomparable")
	}
	return fs
}

type layoutCase struct {
	Tree *gen.Tree `json:"tree"`
}

func layoutFeatures(msg string) []string {
	if strings.Contains(msg, "redeclared in this block") {
		return []string{"helper-redeclared"}
	}
	return nil
}

func c01ReplayLayout(t *testing.T, s *vh.Session) {
	var lc layoutCase
	if err := s.LoadReplay(&lc); err != nil {
		t.Fatalf("INFRA: %v", err)
	}
	dir := s.Scratch()
	rebase(lc.Tree, dir)
	msg, note := c01Layout(s, lc.Tree, dir)
	s.Eval(1)
	if strings.HasPrefix(note, "INFRA") {
		t.Fatalf("%s", note)
	}
	if msg != "" {
		s.FailT(t, "layout", lc, msg)
	}
}
