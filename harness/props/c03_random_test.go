package props

import (
	"testing"

	"verif/harness/vh"
)

func c03Random(t *testing.T, s *vh.Session)       {}
func c03ReplayRandom(t *testing.T, s *vh.Session) {}
