package props

import (
	"fmt"
	"github.com/jmattheis/goverter/config"
	"sort"
	"strings"
	"testing"

	"pgregory.net/rapid"

	"verif/harness/gen"
	"verif/harness/model"
	"verif/harness/vh"
)

// progCase is a generated program with its model-side converter description.
type progCase struct {
	Conv *model.Conv `json:"conv"`
}

func drawOpts(rt *rapid.T) gen.Opts {
	return gen.Opts{
		MaxDepth:      rapid.IntRange(1, 5).Draw(rt, "maxdepth"),
		SamePkg:       rapid.IntRange(0, 3).Draw(rt, "samepkg") == 0,
		TargetsInConv: rapid.IntRange(0, 4).Draw(rt, "targets-in-conv") == 0,
		FieldSettings: rapid.Bool().Draw(rt, "fieldsettings"),
		Defects:       rapid.IntRange(0, 1).Draw(rt, "defects"),
		Flags:         rapid.Bool().Draw(rt, "flags"),
		SkipCopy:      rapid.IntRange(0, 3).Draw(rt, "skipcopy") == 0,
		Enums:         rapid.Bool().Draw(rt, "enums"),
		Arrays:        true,
		ArraysAssign:  true,
		Exotic:        rapid.IntRange(0, 3).Draw(rt, "exotic") == 0,
		Unexported:    rapid.Bool().Draw(rt, "unexported"),
		Methods:       rapid.Bool().Draw(rt, "methods"),
		Custom:        rapid.IntRange(0, 3).Draw(rt, "custom") == 0,
	}
}

// modelProgram returns the model verdict for the whole converter (first rejecting method).
func modelProgram(c *model.Conv) *model.Reject {
	// goverter generates methods in name order and stops at the first failure;
	// only success vs failure is compared, so any rejecting method decides.
	for _, m := range c.Methods {
		if r := c.Check(m); r != nil {
			r.Msg = m.Name + ": " + r.Msg
			return r
		}
	}
	return nil
}

func c03CheckProgram(s *vh.Session, c progCase) (string, bool) {
	dir, err := s.PrepareModule(c.Conv.Prog)
	if err != nil {
		return "INFRA: " + err.Error(), false
	}
	loaded, err := vh.Load(vh.GenOpts{Dir: dir, Patterns: []string{"./conv"}})
	if err != nil {
		return "INFRA: generated program does not load: " + vh.FirstLines(err.Error(), 8), false
	}
	// A verdict must not depend on what was generated before in the same run: the converter is
	// first generated with enum detection excluded for every enum type of the program (result
	// ignored), then as it is. Anything remembered per type across converters shows as a
	// disagreement with the model below.
	if decoy := enumExcludeLines(c.Conv); len(decoy) > 0 {
		_ = loaded.PerConverter(nil, func(rc *config.RawConverter) {
			rc.Converter.Lines = append(append([]string{}, rc.Converter.Lines...), decoy...)
		})
		s.Label("decoy:enum-exclude-first")
	}
	res := loaded.PerConverter(nil, nil)
	if len(res) != 1 {
		return fmt.Sprintf("INFRA: expected one converter, got %d", len(res)), false
	}
	r := res[0]
	s.Eval(1)
	if r.Panic != "" || r.Hang {
		s.Label("c13:" + vh.PanicSig(r.Panic))
		s.Discard(1)
		return "", true
	}
	rej := modelProgram(c.Conv)
	class := "accept"
	if rej != nil {
		class = "reject:" + rej.Class
	}
	s.Label("random:" + class)
	if (r.Err == nil) != (rej == nil) {
		msg := fmt.Sprintf("model says %s", class)
		if rej != nil {
			msg += " (" + rej.Msg + ")"
		}
		return msg + ", goverter says " + outcome(r.GenResult), true
	}
	if r.Err == nil && len(r.Files) == 0 {
		return "success without files", true
	}
	return "", true
}

// enumExcludeLines: one enum:exclude line per declared type that has constants.
func enumExcludeLines(c *model.Conv) []string {
	var out []string
	for _, pk := range c.Prog.Pkgs {
		for _, d := range pk.Types {
			if len(d.Consts) > 0 {
				out = append(out, "enum:exclude "+c.Prog.ImportPath(pk.Key)+":"+d.Name)
			}
		}
	}
	sort.Strings(out)
	return out
}

func progSummary(c *model.Conv) string {
	var parts []string
	for _, m := range c.Methods {
		parts = append(parts, m.Source.Key_()+"->"+m.Target.Key_())
	}
	sort.Strings(parts)
	return strings.Join(parts, "; ") + " | " + strings.Join(c.Settings.Lines(), ",")
}

func c03Random(t *testing.T, s *vh.Session) {
	rapid.Check(t, func(rt *rapid.T) {
		o := drawOpts(rt)
		b := gen.New(rt, o)
		n := rapid.IntRange(1, 3).Draw(rt, "nmethods")
		for i := 0; i < n; i++ {
			b.Method(fmt.Sprintf("M%d", i), o.MaxDepth)
		}
		b.Finish()
		c := progCase{Conv: b.Conv}
		msg, ok := c03CheckProgram(s, c)
		if !ok {
			s.Infra(msg)
			rt.Fatalf("%s", msg)
		}
		for l, k := range b.Labels {
			s.LabelN("gen:"+l, k)
		}
		nontrivial := len(b.Conv.Methods) > n || o.Defects > 0 || len(b.Conv.Settings.Lines()) > 0
		if nontrivial {
			s.Nontrivial("random:"+progSummary(b.Conv), progSummary(b.Conv))
		}
		if msg != "" {
			s.FailRapid(rt, "prog", c, "%s", msg)
		}
	})
}

func c03ReplayRandom(t *testing.T, s *vh.Session) {
	var c progCase
	if err := s.LoadReplay(&c); err != nil {
		t.Fatalf("INFRA: %v", err)
	}
	msg, ok := c03CheckProgram(s, c)
	if !ok {
		t.Fatalf("%s", msg)
	}
	if msg != "" {
		s.FailT(t, "prog", c, msg)
	}
}
