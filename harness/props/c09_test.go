package props

import (
	"fmt"
	"os"
	"os/exec"
	"path/filepath"
	"sort"
	"strings"
	"testing"

	"pgregory.net/rapid"

	"verif/harness/gen"
	"verif/harness/vh"
)

// c09Step is one step of a history.
type c09Step struct {
	Op  string `json:"op"`  // run | patterns | cwd | relocate | edit-input | corrupt-output | delete-output | toggle-fault
	Arg int    `json:"arg"` // variant selector
}

type c09Case struct {
	Tree  *gen.Tree `json:"tree"`
	Steps []c09Step `json:"steps"`
	Runs  int       `json:"runs"` // fresh processes per comparison point
}

// runResult is what a goverter run produced, made location independent.
type runResult struct {
	Exit   int
	Stderr string
	Files  map[string]string
}

func (r runResult) equal(o runResult) (bool, string) {
	if r.Exit != o.Exit {
		return false, fmt.Sprintf("exit status %d vs %d", r.Exit, o.Exit)
	}
	if r.Stderr != o.Stderr {
		return false, fmt.Sprintf("diagnostic differs:\n--- this run\n%s\n--- reference\n%s", vh.FirstLines(r.Stderr, 25), vh.FirstLines(o.Stderr, 25))
	}
	if r.Exit != 0 {
		return true, ""
	}
	if len(r.Files) != len(o.Files) {
		return false, fmt.Sprintf("generated files %v vs %v", sortedKeys(r.Files), sortedKeys(o.Files))
	}
	for p, c := range o.Files {
		if r.Files[p] != c {
			return false, "generated file " + p + " differs"
		}
	}
	return true, ""
}

func cliRun(s *vh.Session, root, cwd string, args ...string) (runResult, bool) {
	run := s.RunCLI(cwd, args...)
	s.Eval(1)
	if run.TimedOut {
		return runResult{}, false
	}
	// paths in diagnostics move with the module
	real, _ := filepath.EvalSymlinks(root)
	stderr := strings.ReplaceAll(run.Stderr, root, "@ROOT")
	if real != "" && real != root {
		stderr = strings.ReplaceAll(stderr, real, "@ROOT")
	}
	return runResult{Exit: run.Exit, Stderr: stderr, Files: generatedFiles(root)}, true
}

// reference generates from a clean copy of the current input in a canonical place.
func c09Reference(s *vh.Session, t *gen.Tree) (runResult, bool) {
	dir := s.Scratch()
	if err := writeLayout(dir, t); err != nil {
		return runResult{}, false
	}
	return cliRun(s, dir, dir, "gen", "./...")
}

func copyTree(src, dst string) error {
	return exec.Command("cp", "-a", src+"/.", dst).Run()
}

func pkgDirs(t *gen.Tree) []string {
	seen := map[string]bool{}
	var out []string
	for _, c := range t.Convs {
		if !seen[c.Dir] {
			seen[c.Dir] = true
			out = append(out, c.Dir)
		}
	}
	sort.Strings(out)
	return out
}

func c09Eval(s *vh.Session, c c09Case) (string, string) {
	cur := cloneTree(c.Tree)
	cur.Rerender()
	root := s.Scratch()
	if err := writeLayout(root, cur); err != nil {
		return "", "INFRA: " + err.Error()
	}
	ref, ok := c09Reference(s, cur)
	if !ok {
		return "", "INFRA: reference run timed out"
	}
	patterns := []string{"./..."}
	cwdMode := 0
	check := func(step string) string {
		for i := 0; i < c.Runs; i++ {
			var got runResult
			var ok bool
			args := []string{"gen"}
			// the runs of one comparison point rotate through the ways of giving the working
			// directory (chdir, -cwd ABS from elsewhere, -cwd REL from a sub-directory)
			switch (cwdMode + i) % 3 {
			case 1:
				args = append(append(args, "-cwd", root), patterns...)
				got, ok = cliRun(s, root, os.TempDir(), args...)
			case 2:
				sub := filepath.Join(root, pkgDirs(cur)[0])
				rel, _ := filepath.Rel(sub, root)
				args = append(append(args, "-cwd", rel), patterns...)
				got, ok = cliRun(s, root, sub, args...)
			default:
				got, ok = cliRun(s, root, root, append(args, patterns...)...)
			}
			if !ok {
				return "INFRA: CLI timed out"
			}
			if same, why := got.equal(ref); !same {
				return fmt.Sprintf("after step %q (run %d of %d, patterns %v, cwd mode %d): %s", step, i+1, c.Runs, patterns, (cwdMode+i)%3, why)
			}
		}
		return ""
	}
	if msg := check("initial"); msg != "" {
		if strings.HasPrefix(msg, "INFRA") {
			return "", msg
		}
		return msg, ""
	}
	edited := false
	for _, st := range c.Steps {
		switch st.Op {
		case "run":
		case "patterns":
			dirs := pkgDirs(cur)
			switch st.Arg % 4 {
			case 0:
				patterns = []string{"./..."}
			case 1:
				patterns = []string{"./...", "./" + dirs[0]}
			case 2:
				patterns = nil
				for i := len(dirs) - 1; i >= 0; i-- {
					patterns = append(patterns, "./"+dirs[i]+"/...")
				}
			default:
				patterns = []string{"./" + dirs[0] + "/...", "./...", "./..."}
			}
		case "cwd":
			cwdMode = st.Arg % 3
		case "relocate":
			next := s.Scratch()
			if err := copyTree(root, next); err != nil {
				return "", "INFRA: " + err.Error()
			}
			root = next
		case "edit-input":
			edited = !edited
			for f, content := range cur.Files {
				if strings.HasSuffix(f, "/types.go") {
					if edited {
						cur.Files[f] = strings.Replace(content, "\tB string\n", "\tB string\n\tD int64\n", 2)
					} else {
						cur.Files[f] = strings.Replace(content, "\tD int64\n", "", 2)
					}
				}
			}
			if err := writeLayout(root, cur); err != nil {
				return "", "INFRA: " + err.Error()
			}
			if ref, ok = c09Reference(s, cur); !ok {
				return "", "INFRA: reference run timed out"
			}
		case "corrupt-output", "delete-output":
			files := sortedKeys(generatedFiles(root))
			if len(files) == 0 {
				continue
			}
			p := filepath.Join(root, files[st.Arg%len(files)])
			if st.Op == "delete-output" {
				_ = os.Remove(p)
			} else {
				raw, _ := os.ReadFile(p)
				lines := strings.Split(string(raw), "\n")
				switch (st.Arg / len(files)) % 3 {
				case 0:
					// header kept, body replaced by something that does not parse
					_ = os.WriteFile(p, []byte(strings.Join(lines[:4], "\n")+"\n\nfunc {{{ broken\n"), 0o644)
				case 1:
					// complete previous output with a broken tail (e.g. a merge leftover)
					_ = os.WriteFile(p, append(raw, []byte("\n>>>>>>> theirs\n")...), 0o644)
				default:
					// complete previous output plus a declaration the current input no longer yields
					_ = os.WriteFile(p, append(raw, []byte("\nfunc staleLeftover() {}\n")...), 0o644)
				}
			}
			if ref.Exit != 0 {
				// a failing run does not repair outputs; compare diagnostics only
			}
		case "toggle-fault":
			i := st.Arg % len(cur.Convs)
			kinds := []string{"unknown-field", "enum-key", "conversion", "signature", "directive"}
			if cur.Convs[i].Fault == "" {
				cur.Convs[i].Fault = kinds[(st.Arg/len(cur.Convs))%len(kinds)]
			} else {
				cur.Convs[i].Fault = ""
			}
			cur.Rerender()
			if err := writeLayout(root, cur); err != nil {
				return "", "INFRA: " + err.Error()
			}
			if ref, ok = c09Reference(s, cur); !ok {
				return "", "INFRA: reference run timed out"
			}
		}
		if msg := check(st.Op); msg != "" {
			if strings.HasPrefix(msg, "INFRA") {
				return "", msg
			}
			return msg, ""
		}
	}
	return "", ""
}

func TestC09(t *testing.T) {
	s := vh.Begin(t, "C09")
	if s.ReplayIn != "" {
		c09Replay(t, s)
		return
	}
	s.ProbeFindings(t, func(f *vh.Finding, path string) { c09Replay(t, s) })
	runs := s.Pick(4, 6)
	rapid.Check(t, func(rt *rapid.T) {
		o := gen.LayoutOpts{
			Faults:  rapid.SampledFrom([]int{0, 0, 1, 2, 3, 4}).Draw(rt, "faults"),
			Layouts: rapid.Bool().Draw(rt, "layouts"), SharedFile: true, Vars: true, MaxConvs: 5, AllowCwd: true,
			SamePackage: rapid.IntRange(0, 3).Draw(rt, "same-package") == 0,
			FaultKinds:  c09FaultKinds(s),
		}
		tree := gen.Layout(rt, o)
		n := rapid.IntRange(2, 6).Draw(rt, "nsteps")
		ops := []string{"run", "patterns", "cwd", "relocate", "edit-input", "corrupt-output", "delete-output", "toggle-fault"}
		c := c09Case{Tree: tree, Runs: runs}
		kinds := map[string]bool{}
		for i := 0; i < n; i++ {
			st := c09Step{Op: rapid.SampledFrom(ops).Draw(rt, "op"), Arg: rapid.IntRange(0, 40).Draw(rt, "arg")}
			c.Steps = append(c.Steps, st)
			kinds[st.Op] = true
		}
		msg, infra := c09Eval(s, c)
		if infra != "" {
			s.Infra(infra)
			rt.Fatalf("%s", infra)
		}
		for k := range kinds {
			s.Label("step:" + k)
		}
		s.LabelN("faults", o.Faults)
		if len(kinds) >= 2 && (len(tree.Convs) >= 2 || o.Faults >= 2) {
			s.Nontrivial(fmt.Sprintf("%v|%v", tree.Convs, c.Steps), map[string]any{"converters": len(tree.Convs), "faults": o.Faults, "steps": c.Steps})
		}
		if msg != "" {
			if f := s.MatchKnown(c09Features(c), msg); f != nil {
				s.Known(f)
				return
			}
			s.FailRapid(rt, "history", c, "%s", msg)
		}
	})
}

// c09FaultKinds leaves out the fault kinds whose diagnostics are known to vary.
func c09FaultKinds(s *vh.Session) []string {
	kinds := []string{"directive", "signature", "conversion"}
	if !s.Open("F-NONDET-DIAG") {
		kinds = append(kinds, "unknown-field", "enum-key")
	}
	return kinds
}

func c09Features(c c09Case) []string {
	for _, cv := range c.Tree.Convs {
		if cv.Fault == "unknown-field" || cv.Fault == "enum-key" {
			return []string{"several-unknown-names"}
		}
	}
	return nil
}

func c09Replay(t *testing.T, s *vh.Session) {
	var c c09Case
	if err := s.LoadReplay(&c); err != nil {
		t.Fatalf("INFRA: %v", err)
	}
	if c.Runs < 12 {
		c.Runs = 12 // a k-way choice hides with probability k^-(runs-1)
	}
	msg, infra := c09Eval(s, c)
	if infra != "" {
		t.Fatalf("%s", infra)
	}
	if msg != "" {
		s.FailT(t, "history", c, msg)
	}
}
