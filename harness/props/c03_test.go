package props

import (
	"fmt"
	"os"
	"strings"
	"testing"

	"github.com/jmattheis/goverter/config"

	"verif/harness/model"
	"verif/harness/spec"
	"verif/harness/vh"
)

// pairCase is one (source type, target type, settings) decision.
type pairCase struct {
	Src *spec.T        `json:"src"`
	Dst *spec.T        `json:"dst"`
	Set model.Settings `json:"settings"`
}

func (c pairCase) key() string {
	return c.Src.Key_() + " -> " + c.Dst.Key_() + " | " + strings.Join(c.Set.Lines(), ",")
}

func c03Settings() []model.Settings {
	var out []model.Settings
	for i := 0; i < 8; i++ {
		out = append(out, model.Settings{
			SkipCopy:    i&1 != 0,
			ZeroPtr:     i&2 != 0,
			EnumOff:     i&4 != 0,
			EnumUnknown: "@ignore",
		})
	}
	// enum detection switched off for single types (after the runs with detection on, so that a
	// verdict remembered from an earlier converter would show)
	out = append(out,
		model.Settings{EnumUnknown: "@ignore", EnumExclude: []string{"example.com/m/r:EA"}},
		model.Settings{EnumUnknown: "@ignore", ZeroPtr: true, EnumExclude: []string{"example.com/m/p:EA", "example.com/m/q:EA"}},
	)
	return out
}

// pairProgram renders one converter per pair into package p of the alphabet program.
func pairProgram(pairs [][2]*spec.T) *spec.Program {
	prog := alphabetProgram()
	p := prog.Pkg("p")
	for i, pr := range pairs {
		p.Converters = append(p.Converters, &spec.Converter{
			Name: fmt.Sprintf("C%05d", i),
			Methods: []*spec.Method{{
				Name:    "Convert",
				Params:  []spec.Param{{Name: "source", T: pr[0]}},
				Results: []*spec.T{pr[1]},
			}},
		})
	}
	return prog
}

func modelVerdict(prog *spec.Program, c pairCase) *model.Reject {
	conv := &model.Conv{Prog: prog, ConvPkg: "p", OutPkg: "p/generated", Settings: c.Set}
	m := &model.Method{Name: "Convert", Settings: c.Set, Source: c.Src, Target: c.Dst}
	conv.Methods = []*model.Method{m}
	return conv.Check(m)
}

// c03Compare evaluates all pairs under all settings and compares with the model.
// It returns the mismatching cases.
func c03Compare(t *testing.T, s *vh.Session, pairs [][2]*spec.T, settings []model.Settings) []string {
	prog := pairProgram(pairs)
	dir := s.Scratch()
	if err := vh.WriteTree(dir, prog.Files()); err != nil {
		t.Fatalf("INFRA: %v", err)
	}
	loaded, err := vh.Load(vh.GenOpts{Dir: dir, Patterns: []string{"./p"}})
	if err != nil {
		s.Infra("C03 program does not load: " + vh.FirstLines(err.Error(), 6))
		t.Fatalf("INFRA: generated program does not load: %v", err)
	}
	if len(loaded.Raw) != len(pairs) {
		t.Fatalf("INFRA: expected %d converters, ParseDocs returned %d", len(pairs), len(loaded.Raw))
	}
	var bad []string
	for _, set := range settings {
		lines := set.Lines()
		results := loaded.PerConverter(nil, func(rc *config.RawConverter) {
			rc.Converter.Lines = append(rc.Converter.Lines, lines...)
		})
		for _, r := range results {
			var idx int
			fmt.Sscanf(r.Name, "C%05d", &idx)
			c := pairCase{Src: pairs[idx][0], Dst: pairs[idx][1], Set: set}
			s.Eval(1)
			if r.Panic != "" || r.Hang {
				// C13's business; counted apart
				s.Label("c13:" + vh.PanicSig(r.Panic))
				s.Discard(1)
				continue
			}
			rej := modelVerdict(prog, c)
			got := r.Err == nil
			want := rej == nil
			if got && len(r.Files) == 0 {
				s.FailT(t, "pair", c, "generation reported success but emitted no file")
				bad = append(bad, c.key())
				continue
			}
			if !got && len(r.Files) != 0 {
				s.FailT(t, "pair", c, "generation failed but returned files")
				bad = append(bad, c.key())
				continue
			}
			class := "accept"
			if rej != nil {
				class = "reject:" + rej.Class
			}
			s.Label(class)
			sameOuter := outerKind(prog, c.Src) == outerKind(prog, c.Dst)
			bySetting := false
			if want {
				// accepted only thanks to a setting?
				base := c
				base.Set = model.Settings{EnumUnknown: set.EnumUnknown, EnumOff: set.EnumOff}
				bySetting = modelVerdict(prog, base) != nil
			} else if rej.Class == "pointer-to-value" {
				bySetting = true
			}
			if sameOuter || bySetting {
				s.Nontrivial(c.key(), c.key()+" => "+class)
			}
			if got != want {
				msg := fmt.Sprintf("model says %s, goverter says %s", class, outcome(r.GenResult))
				s.FailT(t, "pair", c, msg)
				bad = append(bad, c.key()+": "+msg)
				if dbg := os.Getenv("VERIF_DEBUG"); dbg != "" {
					f, _ := os.OpenFile(dbg, os.O_APPEND|os.O_CREATE|os.O_WRONLY, 0o644)
					fmt.Fprintf(f, "%s: %s\n", c.key(), strings.ReplaceAll(msg, "\n", " / "))
					f.Close()
				}
			}
		}
	}
	return bad
}

func outcome(r vh.GenResult) string {
	switch {
	case r.Panic != "":
		return "PANIC " + vh.PanicSig(r.Panic)
	case r.Hang:
		return "HANG"
	case r.Err != nil:
		return "error: " + vh.FirstLines(lastLines(r.Err.Error(), 4), 4)
	}
	return "success"
}

func lastLines(s string, n int) string {
	lines := strings.Split(strings.TrimSpace(s), "\n")
	if len(lines) > n {
		lines = lines[len(lines)-n:]
	}
	return strings.Join(lines, "\n")
}

func allPairs(types []*spec.T) [][2]*spec.T {
	var out [][2]*spec.T
	for _, a := range types {
		for _, b := range types {
			out = append(out, [2]*spec.T{a, b})
		}
	}
	return out
}

func TestC03(t *testing.T) {
	s := vh.Begin(t, "C03")
	if s.ReplayIn != "" {
		c03Replay(t, s)
		return
	}
	s.ProbeFindings(t, func(f *vh.Finding, path string) { c03Replay(t, s) })
	prog := alphabetProgram()
	atoms := alphabetAtoms(false)
	depth1 := append(append([]*spec.T{}, atoms...), applyConstructors(prog, atoms)...)
	pairs := allPairs(depth1)
	// this shard's slice of the depth <= 1 space
	var mine [][2]*spec.T
	for i, p := range pairs {
		if i%s.NShards == s.Shard {
			mine = append(mine, p)
		}
	}
	s.Extra("depth1_types", len(depth1))
	s.Extra("depth1_pairs_total", len(pairs))
	bad := c03Compare(t, s, mine, c03Settings())
	if len(bad) > 0 {
		t.Errorf("%d mismatches at depth<=1, first: %s", len(bad), bad[0])
	}
	c03Depth2(t, s, prog)
	c03Random(t, s)
}

// c03Depth2 covers depth-2 types: exhaustively over the reduced alphabet in the
// thorough tier, as a seeded stride sample in the quick tier.
func c03Depth2(t *testing.T, s *vh.Session, prog *spec.Program) {
	atoms := alphabetAtoms(true)
	d1 := applyConstructors(prog, atoms)
	d2 := applyConstructors(prog, d1)
	types := append(append(append([]*spec.T{}, atoms...), d1...), d2...)
	n := len(types)
	total := n * n
	s.Extra("depth2_types", n)
	s.Extra("depth2_pairs_total", total)
	stride := 1
	if s.Quick() {
		stride = 97
	}
	offset := int(uint64(s.Seed) % uint64(stride))
	var mine [][2]*spec.T
	k := 0
	for idx := offset; idx < total; idx += stride {
		if k%s.NShards == s.Shard {
			mine = append(mine, [2]*spec.T{types[idx/n], types[idx%n]})
		}
		k++
	}
	s.Extra("depth2_stride", stride)
	const chunk = 6000
	for i := 0; i < len(mine); i += chunk {
		j := i + chunk
		if j > len(mine) {
			j = len(mine)
		}
		if bad := c03Compare(t, s, mine[i:j], c03Settings()); len(bad) > 0 {
			t.Errorf("%d mismatches at depth 2, first: %s", len(bad), bad[0])
			return
		}
	}
}

func c03Replay(t *testing.T, s *vh.Session) {
	switch s.ReplayTag() {
	case "pair":
		var c pairCase
		if err := s.LoadReplay(&c); err != nil {
			t.Fatalf("INFRA: %v", err)
		}
		bad := c03Compare(t, s, [][2]*spec.T{{c.Src, c.Dst}}, []model.Settings{c.Set})
		if len(bad) > 0 {
			t.Errorf("still failing: %s", bad[0])
		}
	default:
		c03ReplayRandom(t, s)
	}
}
