package props

import (
	"fmt"
	"testing"

	"pgregory.net/rapid"

	"verif/harness/gen"
	"verif/harness/vh"
)

// TestC07: errors from custom functions always propagate, with an accurate location.
func TestC07(t *testing.T) {
	s := vh.Begin(t, "C07")
	replay := func() {
		if s.ReplayTag() == "prog" {
			c03ReplayRandom(t, s)
		} else {
			runCaseReplay(t, s)
		}
	}
	if s.ReplayIn != "" {
		replay()
		return
	}
	s.ProbeFindings(t, func(f *vh.Finding, path string) { replay() })
	values := s.Pick(40, 150)
	t.Run("faults", func(t *testing.T) {
		rapid.Check(t, func(rt *rapid.T) {
			o := gen.Opts{
				MaxDepth:      rapid.IntRange(2, 4).Draw(rt, "maxdepth"),
				SamePkg:       rapid.IntRange(0, 3).Draw(rt, "samepkg") == 0,
				FieldSettings: true,
				Flags:         rapid.Bool().Draw(rt, "flags"),
				Custom:        true,
				Fallible:      true,
				AlwaysErr:     true,
				FallibleRate:  80,
				Contexts:      1,
				Methods:       true,
				MaxFields:     4,
			}
			b := gen.New(rt, o)
			wrap := rapid.SampledFrom([]string{"", "errors", "using", "using"}).Draw(rt, "wrap")
			b.Conv.Settings.Wrap = wrap
			b.Conv.Settings.WrapPkg = b.Prog.Module + "/vwrap"
			n := rapid.IntRange(1, 3).Draw(rt, "nmethods")
			for i := 0; i < n; i++ {
				if rapid.Bool().Draw(rt, "struct-method") {
					b.StructMethod(fmt.Sprintf("M%d", i), o.MaxDepth)
				} else {
					b.Method(fmt.Sprintf("M%d", i), o.MaxDepth)
				}
			}
			if rapid.IntRange(0, 3).Draw(rt, "recursive-late") == 0 {
				b.RecursiveLate("R0")
			}
			if wrap == "errors" && rapid.IntRange(0, 2).Draw(rt, "shared-helper-override") == 0 {
				b.SharedHelperOverride("wrap-off")
			}
			b.Conv.Settings.EnumOff = true
			b.Finish()
			c := runCase{Conv: b.Conv, Mode: "fault", Values: values, Seed: rapid.Uint64().Draw(rt, "drvseed"), Funcs: b.Funcs, Distinct: true, Wrap: wrap}
			v := executeRunCase(s, c)
			for l, k := range b.Labels {
				s.LabelN("gen:"+l, k)
			}
			s.Label("wrap-mode:" + wrap)
			handleRunVerdict(rt, s, c, v)
		})
	})
	t.Run("no-error-result", func(t *testing.T) {
		rapid.Check(t, func(rt *rapid.T) {
			for k := 0; k < 4; k++ {
				o := gen.Opts{
					MaxDepth:      rapid.IntRange(1, 3).Draw(rt, "maxdepth"),
					FieldSettings: true,
					Custom:        true,
					ErrMismatch:   true,
					Methods:       true,
					MaxFields:     4,
				}
				b := gen.New(rt, o)
				b.StructMethod("M0", o.MaxDepth)
				b.Method("M1", o.MaxDepth)
				b.Conv.Settings.EnumOff = true
				b.Finish()
				c := progCase{Conv: b.Conv}
				msg, ok := c03CheckProgram(s, c)
				if !ok {
					s.Infra(msg)
					rt.Fatalf("%s", msg)
				}
				if b.Labels["defect:error-result-missing"] > 0 {
					s.Label("neg:fallible-function-without-error-result")
					s.Nontrivial("neg:"+progSummary(b.Conv)+fmt.Sprint(b.Funcs), nil)
				}
				if msg != "" {
					s.FailRapid(rt, "prog", c, "%s", msg)
				}
			}
		})
	})
}
