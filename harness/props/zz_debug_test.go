package props

import (
	"encoding/json"
	"fmt"
	"os"
	"testing"
)

func TestZZDebugPlan(t *testing.T) {
	p := os.Getenv("DEBUG_REPLAY")
	if p == "" {
		t.Skip()
	}
	raw, _ := os.ReadFile(p)
	var doc struct {
		Case runCase `json:"case"`
	}
	if err := json.Unmarshal(raw, &doc); err != nil {
		t.Fatal(err)
	}
	for _, m := range doc.Case.Conv.Methods {
		if m.Name != os.Getenv("DEBUG_METHOD") {
			continue
		}
		res, rej := doc.Case.Conv.Plan(m)
		fmt.Println("REJ", rej)
		out, _ := json.MarshalIndent(res, "", " ")
		fmt.Println(string(out))
	}
}
