package props

import (
	"fmt"
	"testing"

	"pgregory.net/rapid"

	"verif/harness/gen"
	"verif/harness/vh"
)

// TestC11: pointer mismatches and default constructors follow the documented semantics.
func TestC11(t *testing.T) {
	s := vh.Begin(t, "C11")
	replay := func() {
		if s.ReplayTag() == "prog" {
			c03ReplayRandom(t, s)
		} else {
			runCaseReplay(t, s)
		}
	}
	if s.ReplayIn != "" {
		replay()
		return
	}
	s.ProbeFindings(t, func(f *vh.Finding, path string) { replay() })
	values := s.Pick(80, 250)
	t.Run("defaults", func(t *testing.T) {
		rapid.Check(t, func(rt *rapid.T) {
			o := gen.Opts{
				MaxDepth:      rapid.IntRange(1, 3).Draw(rt, "maxdepth"),
				SamePkg:       rapid.IntRange(0, 3).Draw(rt, "samepkg") == 0,
				FieldSettings: true,
				Flags:         rapid.Bool().Draw(rt, "flags"),
				Custom:        true,
				Contexts:      1,
				MaxFields:     5,
			}
			b := gen.New(rt, o)
			b.OpenNonComparable = s.Open("F-ZERO-NONCOMPARABLE")
			b.OpenPtrSrcWhole = s.Open("F-UPDATE-PTRSRC-WHOLE")
			b.OpenNestedStale = s.Open("F-UPDATE-NESTED-STALE")
			b.OpenNilPtrSub = s.Open("F-UPDATE-NILLABLE-CALL")
			b.OpenNilPtrSub = s.Open("F-UPDATE-NILLABLE-CALL")
			n := rapid.IntRange(1, 3).Draw(rt, "nmethods")
			for i := 0; i < n; i++ {
				b.DefaultMethod(fmt.Sprintf("D%d", i), o.MaxDepth)
			}
			b.Conv.Settings.EnumOff = true
			b.Finish()
			c := runCase{Conv: b.Conv, Mode: "value", Values: values, Seed: rapid.Uint64().Draw(rt, "drvseed"), Funcs: b.Funcs}
			v := executeRunCase(s, c)
			for l, k := range b.Labels {
				s.LabelN("gen:"+l, k)
			}
			handleRunVerdict(rt, s, c, v)
		})
	})
	t.Run("pointers", func(t *testing.T) {
		rapid.Check(t, func(rt *rapid.T) {
			o := gen.Opts{
				MaxDepth:   rapid.IntRange(2, 4).Draw(rt, "maxdepth"),
				SamePkg:    rapid.IntRange(0, 3).Draw(rt, "samepkg") == 0,
				Flags:      true,
				PtrHeavy:   true,
				Arrays:     false,
				Unexported: false,
				MaxFields:  3,
			}
			b := gen.New(rt, o)
			n := rapid.IntRange(2, 5).Draw(rt, "nmethods")
			for i := 0; i < n; i++ {
				b.Method(fmt.Sprintf("M%d", i), o.MaxDepth)
			}
			b.Conv.Settings.EnumOff = true
			// where the flag is written: converter level (default) or command line
			global := []string(nil)
			if b.Conv.Settings.ZeroPtr && rapid.Bool().Draw(rt, "flag-on-cli") {
				global = []string{"useZeroValueOnPointerInconsistency"}
				b.GlobalOnly = append(b.GlobalOnly, "useZeroValueOnPointerInconsistency")
			}
			b.Finish()
			c := runCase{Conv: b.Conv, Mode: "value", Values: values, Seed: rapid.Uint64().Draw(rt, "drvseed"), Global: global}
			v := executeRunCase(s, c)
			for l, k := range b.Labels {
				s.LabelN("gen:"+l, k)
			}
			handleRunVerdict(rt, s, c, v)
		})
	})
	t.Run("flag-required", func(t *testing.T) {
		rapid.Check(t, func(rt *rapid.T) {
			// *T -> U somewhere, flag withheld: generation must fail (and succeed with it)
			for k := 0; k < 5; k++ {
				withDefault := rapid.IntRange(0, 2).Draw(rt, "with-default-method") == 0
				o := gen.Opts{MaxDepth: rapid.IntRange(1, 3).Draw(rt, "maxdepth"), Flags: true, PtrHeavy: true, MaxFields: 3, Custom: withDefault}
				b := gen.New(rt, o)
				b.Method("M0", o.MaxDepth)
				if withDefault {
					// a default constructor (with or without default:update) does not stand in for the flag
					b.DefaultMethod("D0", max(o.MaxDepth, 2))
					s.Label("flag-required:with-default-method")
				} else {
					b.Method("M1", o.MaxDepth)
				}
				b.Conv.Settings.EnumOff = true
				had := b.Conv.Settings.ZeroPtr
				withhold := had && rapid.Bool().Draw(rt, "withhold-flag")
				if withhold {
					b.Conv.Settings.ZeroPtr = false
				}
				b.Finish()
				c := progCase{Conv: b.Conv}
				msg, ok := c03CheckProgram(s, c)
				if !ok {
					s.Infra(msg)
					rt.Fatalf("%s", msg)
				}
				if had {
					s.Nontrivial(fmt.Sprintf("flag:%v:%s", withhold, progSummary(b.Conv)), nil)
					s.Label(fmt.Sprintf("needs-flag:withheld=%v", withhold))
				}
				if msg != "" {
					s.FailRapid(rt, "prog", c, "%s", msg)
				}
			}
		})
	})
}
