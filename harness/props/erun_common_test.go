package props

import (
	"fmt"
	"regexp"
	"strings"

	"verif/harness/model"
	"verif/harness/spec"
	"verif/harness/vh"
)

// runCase is a generate-compile-execute case: a program, its model and the driver setup.
type runCase struct {
	Conv     *model.Conv         `json:"conv"`
	Mode     string              `json:"mode"`
	Values   int                 `json:"values"`
	Seed     uint64              `json:"seed"`
	Sharing  bool                `json:"sharing,omitempty"`
	Distinct bool                `json:"distinct,omitempty"`
	Race     bool                `json:"race,omitempty"`
	Funcs    []string            `json:"funcs,omitempty"`
	Format   string              `json:"format,omitempty"`
	Wrap     string              `json:"wrap,omitempty"`
	Enums    map[string][]string `json:"enums,omitempty"`
	Global   []string            `json:"global,omitempty"`
}

// runVerdict is the classified outcome of a runCase.
type runVerdict struct {
	Class   string // ok | discard:<why> | infra | violation
	Msg     string
	Feature []string
	Out     *vh.RunOutcome
}

// executeRunCase runs a case through E-run and classifies the result for the
// value-level properties: generation and compilation problems belong to C03/C01
// and are discards here.
func executeRunCase(s *vh.Session, c runCase) runVerdict {
	infos, rej := vh.MethodInfos(c.Conv)
	if rej != nil {
		return runVerdict{Class: "discard:model-reject", Msg: rej.Error()}
	}
	rs := &vh.RunSpec{
		Prog: c.Conv.Prog, Conv: c.Conv, Patterns: []string{"./" + c.Conv.ConvPkg},
		Manifest: vh.DriverManifest{Mode: c.Mode, Values: c.Values, Methods: infos, Sharing: c.Sharing, Distinct: c.Distinct, Races: c.Race, Wrap: c.Wrap, Enums: c.Enums},
		Race:     c.Race, Seed: c.Seed, Funcs: c.Funcs, Format: c.Format, Global: c.Global,
	}
	out := s.Execute(rs)
	v := runVerdict{Out: out}
	switch {
	case out.Infra != "":
		v.Class, v.Msg = "infra", out.Infra
	case out.Gen.Panic != "" || out.Gen.Hang:
		v.Class, v.Msg = "discard:goverter-panic", vh.PanicSig(out.Gen.Panic)
	case out.Gen.Err != nil:
		v.Class, v.Msg = "discard:generation-failed", lastLines(out.Gen.Err.Error(), 4)
	case out.BuildErr != "":
		v.Class, v.Msg = "discard:does-not-compile", vh.FirstLines(out.BuildErr, 6)
	case out.Race != "":
		v.Class, v.Msg = "violation", "data race in generated code under concurrent calls:\n"+out.Race
	default:
		v.Class = "ok"
		for _, st := range out.Stats {
			if st.Fail != nil {
				v.Class = "violation"
				v.Msg = fmt.Sprintf("method %s: %s\nsource value: %s", st.Method, st.Fail.Msg, st.Fail.Value)
				break
			}
		}
		if v.Class == "ok" && strings.Contains(out.Output, "--- FAIL") {
			v.Class, v.Msg = "infra", "driver failed without a recorded failure:\n"+vh.FirstLines(out.Output, 40)
		}
	}
	return v
}

// account adds the driver statistics of an outcome to the session.
func account(s *vh.Session, prefix string, out *vh.RunOutcome) {
	if out == nil {
		return
	}
	for _, st := range out.Stats {
		s.Eval(st.Evals)
		for _, h := range st.Nontrivial {
			s.NontrivialHash(h)
		}
		for _, smp := range st.Samples {
			s.Sample(prefix + st.Method + ": " + smp)
		}
		for l, n := range st.Labels {
			s.LabelN("drv:"+l, n)
		}
	}
}

var reZeroKept = regexp.MustCompile(`method (\w+): field target((?:\.\w+)+) \(source type ([^)]*)\): zero source of a selected ignoreZeroValueField category must leave the target unchanged`)

// convOpAt returns the op of the conversion plan of the target field at path below the
// top struct plan of method name ("" if it cannot be found or the field uses map|FUNC).
func convOpAt(c runCase, name string, path []string) string {
	for _, m := range c.Conv.Methods {
		if m.Name != name {
			continue
		}
		res, rej := c.Conv.Plan(m)
		if rej != nil {
			return ""
		}
		p := res.Top
		if p.Op == "update-ptr" {
			p = p.Elem
		}
		for i, seg := range path {
			if p == nil || p.Op != "struct" {
				return ""
			}
			var next *model.Plan
			found := false
			for _, fp := range p.Fields {
				if fp.Target == seg {
					found = true
					if fp.Func != "" {
						return ""
					}
					next = fp.Conv
				}
			}
			if !found || next == nil {
				return ""
			}
			if i == len(path)-1 {
				return next.Op
			}
			p = next
		}
	}
	return ""
}

// namedNillable: "pkg.Name" of a declared type whose underlying type is a pointer or a slice.
func namedNillable(c runCase, name string) bool {
	i := strings.LastIndex(name, ".")
	if i < 0 || c.Conv == nil || c.Conv.Prog == nil {
		return false
	}
	for _, pk := range c.Conv.Prog.Pkgs {
		if pk.Name != name[:i] && pk.Key != name[:i] {
			continue
		}
		for _, d := range pk.Types {
			if d.Name == name[i+1:] && d.U != nil {
				// named maps are guarded like unnamed ones (always checked for nil); the finding
				// is about named slices and pointers, which reach the target through a helper call
				u := c.Conv.Prog.Underlying(d.U)
				return u.K == spec.KPtr || u.K == spec.KSlice
			}
		}
	}
	return false
}

// featuresOf derives the structural features of a failing case that known findings are
// matched on (together with their failure pattern).
func featuresOf(id string, c runCase, v runVerdict) []string {
	if v.Class != "violation" {
		return nil
	}
	var fs []string
	switch id {
	case "C04":
		fs = append(fs, c04Features(c, v)...)
	case "C10", "C11":
		if strings.Contains(v.Msg, "[nested member kept stale]") {
			fs = append(fs, "update-nested-stale")
		}
		if m := reZeroKept.FindStringSubmatch(v.Msg); m != nil {
			srcType := m[3]
			nillableKind := strings.HasPrefix(srcType, "*") || strings.HasPrefix(srcType, "[]") || strings.HasPrefix(srcType, "map[") || namedNillable(c, srcType)
			op := convOpAt(c, m[1], strings.Split(strings.TrimPrefix(m[2], "."), "."))
			if nillableKind && (op == "call" || op == "ref" || op == "method" || op == "toptr") {
				// nil pointer / slice / map source whose conversion is not a plain nil-guarded
				// builder: a function or method call, or value -> pointer
				fs = append(fs, "update-nillable-via-call")
			}
		}
	}
	return fs
}
