package props

import (
	"fmt"
	"strings"

	"verif/harness/model"
	"verif/harness/vh"
)

// runCase is a generate-compile-execute case: a program, its model and the driver setup.
type runCase struct {
	Conv     *model.Conv `json:"conv"`
	Mode     string      `json:"mode"`
	Values   int         `json:"values"`
	Seed     uint64      `json:"seed"`
	Sharing  bool        `json:"sharing,omitempty"`
	Distinct bool        `json:"distinct,omitempty"`
	Race     bool        `json:"race,omitempty"`
	Funcs    []string    `json:"funcs,omitempty"`
	Format   string      `json:"format,omitempty"`
	Wrap     string      `json:"wrap,omitempty"`
	Enums    map[string][]string `json:"enums,omitempty"`
}

// runVerdict is the classified outcome of a runCase.
type runVerdict struct {
	Class   string // ok | discard:<why> | infra | violation
	Msg     string
	Feature []string
	Out     *vh.RunOutcome
}

// executeRunCase runs a case through E-run and classifies the result for the
// value-level properties: generation and compilation problems belong to C03/C01
// and are discards here.
func executeRunCase(s *vh.Session, c runCase) runVerdict {
	infos, rej := vh.MethodInfos(c.Conv)
	if rej != nil {
		return runVerdict{Class: "discard:model-reject", Msg: rej.Error()}
	}
	rs := &vh.RunSpec{
		Prog: c.Conv.Prog, Conv: c.Conv, Patterns: []string{"./" + c.Conv.ConvPkg},
		Manifest: vh.DriverManifest{Mode: c.Mode, Values: c.Values, Methods: infos, Sharing: c.Sharing, Distinct: c.Distinct, Races: c.Race, Wrap: c.Wrap, Enums: c.Enums},
		Race:     c.Race, Seed: c.Seed, Funcs: c.Funcs, Format: c.Format,
	}
	out := s.Execute(rs)
	v := runVerdict{Out: out}
	switch {
	case out.Infra != "":
		v.Class, v.Msg = "infra", out.Infra
	case out.Gen.Panic != "" || out.Gen.Hang:
		v.Class, v.Msg = "discard:goverter-panic", vh.PanicSig(out.Gen.Panic)
	case out.Gen.Err != nil:
		v.Class, v.Msg = "discard:generation-failed", lastLines(out.Gen.Err.Error(), 4)
	case out.BuildErr != "":
		v.Class, v.Msg = "discard:does-not-compile", vh.FirstLines(out.BuildErr, 6)
	case out.Race != "":
		v.Class, v.Msg = "violation", "data race in generated code under concurrent calls:\n"+out.Race
	default:
		v.Class = "ok"
		for _, st := range out.Stats {
			if st.Fail != nil {
				v.Class = "violation"
				v.Msg = fmt.Sprintf("method %s: %s\nsource value: %s", st.Method, st.Fail.Msg, st.Fail.Value)
				break
			}
		}
		if v.Class == "ok" && strings.Contains(out.Output, "--- FAIL") {
			v.Class, v.Msg = "infra", "driver failed without a recorded failure:\n"+vh.FirstLines(out.Output, 40)
		}
	}
	return v
}

// account adds the driver statistics of an outcome to the session.
func account(s *vh.Session, prefix string, out *vh.RunOutcome) {
	if out == nil {
		return
	}
	for _, st := range out.Stats {
		s.Eval(st.Evals)
		for _, h := range st.Nontrivial {
			s.NontrivialHash(h)
		}
		for _, smp := range st.Samples {
			s.Sample(prefix + st.Method + ": " + smp)
		}
		for l, n := range st.Labels {
			s.LabelN("drv:"+l, n)
		}
	}
}
