package props

import (
	"fmt"
	"testing"

	"pgregory.net/rapid"

	"verif/harness/gen"
	"verif/harness/vh"
)

// TestC08: enum conversion is a total name-driven mapping with the set unknown policy.
func TestC08(t *testing.T) {
	s := vh.Begin(t, "C08")
	replay := func() {
		if s.ReplayTag() == "prog" {
			c03ReplayRandom(t, s)
		} else {
			runCaseReplay(t, s)
		}
	}
	if s.ReplayIn != "" {
		replay()
		return
	}
	s.ProbeFindings(t, func(f *vh.Finding, path string) { replay() })
	values := s.Pick(60, 200)
	eo := gen.EnumOpts{NoBigConst: s.Open("F-ENUM-BIGCONST"), NoUnexported: true}
	t.Run("runtime", func(t *testing.T) {
		rapid.Check(t, func(rt *rapid.T) {
			o := gen.Opts{SamePkg: rapid.IntRange(0, 3).Draw(rt, "samepkg") == 0, MaxFields: 3}
			b := gen.New(rt, o)
			enums := map[string][]string{}
			n := rapid.IntRange(1, 2).Draw(rt, "nenums")
			for i := 0; i < n; i++ {
				for _, info := range b.EnumProgram(eo) {
					enums[info.Type] = info.Values
				}
			}
			if rapid.IntRange(0, 2).Draw(rt, "enum-same") == 0 {
				for _, info := range b.EnumSame(true) {
					enums[info.Type] = info.Values
				}
			}
			b.EnumWrappers()
			b.FinishEnums()
			b.Finish()
			if eo.NoBigConst {
				s.Excluded("F-ENUM-BIGCONST")
			}
			c := runCase{Conv: b.Conv, Mode: "value", Values: values, Seed: rapid.Uint64().Draw(rt, "drvseed"), Enums: enums}
			v := executeRunCase(s, c)
			for l, k := range b.Labels {
				s.LabelN("gen:"+l, k)
			}
			s.Label("unknown-policy:" + b.Conv.Settings.EnumUnknown)
			handleRunVerdict(rt, s, c, v)
		})
	})
	t.Run("negative", func(t *testing.T) {
		rapid.Check(t, func(rt *rapid.T) {
			for k := 0; k < 6; k++ {
				o := gen.Opts{SamePkg: rapid.IntRange(0, 3).Draw(rt, "samepkg") == 0, MaxFields: 3}
				o.SourcesInConv = !o.SamePkg && rapid.IntRange(0, 2).Draw(rt, "sources-in-conv") == 0
				b := gen.New(rt, o)
				neg := eo
				neg.Unexported = true
				neg.NoUnexported = s.Open("F-ENUM-UNEXPORTED")
				neg.Negative = rapid.IntRange(0, 3).Draw(rt, "negative") > 0
				b.EnumProgram(neg)
				if !o.SourcesInConv && rapid.IntRange(0, 3).Draw(rt, "enum-same") == 0 {
					// (with the sources in the converter package a target struct holding the
					// source enum would make the packages import each other)
					b.EnumSame(false)
				}
				b.EnumWrappers()
				b.FinishEnums()
				b.Finish()
				c := progCase{Conv: b.Conv}
				msg, ok := c03CheckProgram(s, c)
				if !ok {
					s.Infra(msg)
					rt.Fatalf("%s", msg)
				}
				for l, n := range b.Labels {
					s.LabelN("neg:"+l, n)
				}
				s.Nontrivial("neg:"+progSummary(b.Conv)+fmt.Sprint(b.Labels), nil)
				if msg != "" {
					s.FailRapid(rt, "prog", c, "%s", msg)
				}
			}
		})
	})
}
