package props

import (
	"os"
	"testing"

	"pgregory.net/rapid"

	"verif/harness/vh"
)

// FuzzC13Directives is the coverage-guided leg of C13 (thorough tier): Go's native fuzzer
// mutates the byte stream that drives the same vocabulary-aware directive generator as the
// rapid leg, so new coverage inside config.Parse / generator.Generate steers the search.
// A violation writes the usual replay file (the directive case, not the byte input); ./check
// confirms it through --replay in a fresh process.
func FuzzC13Directives(f *testing.F) {
	os.Setenv("VERIF_FUZZ", "1")
	s := vh.Begin(f, "C13")
	l, err := c13Base(s)
	if err != nil {
		f.Fatalf("INFRA: base program does not load: %v", err)
	}
	f.Fuzz(rapid.MakeFuzz(func(rt *rapid.T) {
		for k := 0; k < 20; k++ {
			c := genDirCase(rt, l)
			msg, _ := c13EvalDirective(s, l, c)
			if msg == "" {
				continue
			}
			if fd := s.MatchKnown([]string{"directive"}, msg); fd != nil {
				continue
			}
			s.FailRapid(rt, "dir", c, "%s", msg)
		}
	}))
}
