package props

import (
	"fmt"
	"testing"

	"pgregory.net/rapid"

	"verif/harness/gen"
	"verif/harness/vh"
)

// TestC10: update methods write only mapped, non-skipped fields of the target instance.
func TestC10(t *testing.T) {
	s := vh.Begin(t, "C10")
	if s.ReplayIn != "" {
		runCaseReplay(t, s)
		return
	}
	s.ProbeFindings(t, func(f *vh.Finding, path string) { runCaseReplay(t, s) })
	values := s.Pick(80, 250)
	rapid.Check(t, func(rt *rapid.T) {
		o := gen.Opts{
			MaxDepth:      rapid.IntRange(1, 3).Draw(rt, "maxdepth"),
			SamePkg:       rapid.IntRange(0, 3).Draw(rt, "samepkg") == 0,
			FieldSettings: true,
			Flags:         rapid.Bool().Draw(rt, "flags"),
			SkipCopy:      rapid.IntRange(0, 2).Draw(rt, "skipcopy") == 0,
			Custom:        rapid.Bool().Draw(rt, "custom"),
			Contexts:      1,
			Unexported:    rapid.Bool().Draw(rt, "unexported"),
			MaxFields:     5,
		}
		b := gen.New(rt, o)
		b.OpenNonComparable = s.Open("F-ZERO-NONCOMPARABLE")
		b.OpenPtrSrcWhole = s.Open("F-UPDATE-PTRSRC-WHOLE")
		b.OpenNestedStale = s.Open("F-UPDATE-NESTED-STALE")
		b.OpenNilPtrSub = s.Open("F-UPDATE-NILLABLE-CALL")
		n := rapid.IntRange(1, 3).Draw(rt, "nmethods")
		for i := 0; i < n; i++ {
			b.UpdateMethod(fmt.Sprintf("U%d", i), o.MaxDepth)
		}
		b.Conv.Settings.EnumOff = true
		b.Finish()
		for _, f := range []string{"F-ZERO-NONCOMPARABLE", "F-UPDATE-NESTED-STALE", "F-UPDATE-NILLABLE-CALL"} {
			if b.Labels["excluded:"+f] > 0 {
				s.Excluded(f)
			}
		}
		c := runCase{Conv: b.Conv, Mode: "value", Values: values, Seed: rapid.Uint64().Draw(rt, "drvseed"), Funcs: b.Funcs}
		v := executeRunCase(s, c)
		for l, k := range b.Labels {
			s.LabelN("gen:"+l, k)
		}
		st := b.Conv.Settings
		for _, m := range b.Conv.Methods {
			ms := m.Settings
			s.Label(fmt.Sprintf("zero-categories:basic=%v,struct=%v,nillable=%v", st.ZeroBasic || ms.ZeroBasic, st.ZeroStruct || ms.ZeroStruct, st.ZeroNillable || ms.ZeroNillable))
		}
		handleRunVerdict(rt, s, c, v)
	})
}
