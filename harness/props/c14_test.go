package props

import (
	"fmt"
	"go/ast"
	"go/parser"
	"go/token"
	"go/types"
	"strings"
	"testing"

	"pgregory.net/rapid"

	"verif/harness/vh"
)

// sigCase is one declared signature. Roles of params: S source, N second non-context
// param, X context by `context ARG`, R context by arg:context:regex (^ctx), T update target,
// C converter interface (custom functions only). Results: O target type, E error, Z other.
type sigCase struct {
	Consumer string `json:"consumer"` // method | variable | extend | mapfunc | default
	Params   string `json:"params"`
	Results  string `json:"results"`
	Named    bool   `json:"named"`
}

func (c sigCase) key() string {
	return fmt.Sprintf("%s(%s)(%s)named=%v", c.Consumer, c.Params, c.Results, c.Named)
}

const c14Types = `package p

type In struct{ A int }
type Out struct{ A int }
type Other struct{ B string }
type CtxA struct{ V int }
type CtxB struct{ V string }
type CtxR struct{ V bool }

// error-like types that are not the built-in error
type Failure interface{ Error() string }
type MyErr error

type Holder struct{ F In }
type HolderOut struct{ F Out }
`

func paramType(role byte, update bool) string {
	switch role {
	case 'S':
		return "In"
	case 'N':
		return "Other"
	case 'X':
		return "*CtxA"
	case 'Y':
		return "CtxB"
	case 'R':
		return "*CtxR"
	case 'T':
		return "*Out"
	case 'C':
		return "Conv"
	}
	return "int"
}

func paramName(role byte, i int) string {
	switch role {
	case 'S':
		return "source"
	case 'N':
		return fmt.Sprintf("other%d", i)
	case 'X':
		return "a"
	case 'Y':
		return "b"
	case 'R':
		return "ctxR"
	case 'T':
		return "target"
	case 'C':
		return "c"
	}
	return "x"
}

func resultType(r byte) string {
	switch r {
	case 'O':
		return "Out"
	case 'E':
		return "error"
	case 'F':
		return "Failure"
	case 'G':
		return "MyErr"
	}
	return "int"
}

func (c sigCase) signature() string {
	var ps, rs []string
	for i := 0; i < len(c.Params); i++ {
		t := paramType(c.Params[i], false)
		if c.Named {
			ps = append(ps, paramName(c.Params[i], i)+" "+t)
		} else {
			ps = append(ps, t)
		}
	}
	for i := 0; i < len(c.Results); i++ {
		rs = append(rs, resultType(c.Results[i]))
	}
	res := strings.Join(rs, ", ")
	if len(rs) > 1 {
		res = "(" + res + ")"
	}
	return "(" + strings.Join(ps, ", ") + ") " + res
}

// accept is the documented signature rule.
func (c sigCase) accept() (bool, string) {
	sources, targets := 0, 0
	for i := 0; i < len(c.Params); i++ {
		switch c.Params[i] {
		case 'S', 'N':
			sources++
		case 'X', 'Y', 'R':
			if !c.Named {
				sources++ // unnamed params cannot be contexts
			}
		case 'T':
			if c.Named {
				targets++
			} else {
				sources++
			}
		}
	}
	firstIsSource := true
	// the first non-context param must be the In-typed one for the conversion to type-check
	for i := 0; i < len(c.Params); i++ {
		r := c.Params[i]
		isCtx := c.Named && (r == 'X' || r == 'Y' || r == 'R')
		if isCtx || r == 'C' || (r == 'T' && c.Named) {
			continue
		}
		firstIsSource = r == 'S'
		break
	}
	switch c.Consumer {
	case "method", "variable":
		if targets == 1 {
			if !(c.Results == "" || c.Results == "E") {
				return false, "update methods return nothing or error"
			}
			if sources != 1 {
				return false, "exactly one source"
			}
			return firstIsSource, "source must be the struct"
		}
		if sources != 1 {
			return false, "exactly one source"
		}
		if !(c.Results == "O" || c.Results == "OE") {
			return false, "results must be target or (target, error)"
		}
		return firstIsSource, "source type"
	case "extend":
		// any conversion function is a valid extend function, whether it is used or not
		if sources != 1 {
			return false, "exactly one source"
		}
		switch len(c.Results) {
		case 1:
			return true, ""
		case 2:
			return c.Results[1] == 'E', "second result must be error"
		}
		return false, "one or two results"
	case "mapfunc", "default":
		if sources > 1 {
			return false, "at most one source"
		}
		if !(c.Results == "O" || c.Results == "OE") {
			return false, "results"
		}
		return sources == 0 || firstIsSource, "source type"
	}
	return false, "?"
}

// c14Program renders the cases of one consumer kind into a package: one converter each.
func c14Program(cases []sigCase) map[string]string {
	var conv, funcs strings.Builder
	conv.WriteString("package p\n\n")
	funcs.WriteString("package p\n\n")
	for i, c := range cases {
		docs := ""
		ctxDoc := func(prefix string) string {
			var b strings.Builder
			if c.Named {
				for j := 0; j < len(c.Params); j++ {
					switch c.Params[j] {
					case 'X', 'Y':
						fmt.Fprintf(&b, "%s// goverter:context %s\n", prefix, paramName(c.Params[j], j))
					}
				}
			}
			return b.String()
		}
		switch c.Consumer {
		case "method", "variable":
			if c.Named && strings.Contains(c.Params, "T") {
				docs += "\t// goverter:update target\n"
			}
			docs += ctxDoc("\t")
			if c.Consumer == "method" {
				fmt.Fprintf(&conv, "// goverter:converter\n// goverter:arg:context:regex ^ctx\ntype C%05d interface {\n%s\tM%s\n}\n\n", i, docs, c.signature())
			} else {
				fmt.Fprintf(&conv, "// goverter:variables\n// goverter:arg:context:regex ^ctx\n// goverter:output:file ./gen/v%05d.go\n// goverter:output:package example.com/c14/p/gen%05d\nvar (\n%s\tV%05d func%s\n)\n\n", i, i, docs, i, c.signature())
			}
		default:
			// custom function Fn with the signature; the converter interface type of this case
			fn := fmt.Sprintf("F%05d", i)
			sig := strings.ReplaceAll(c.signature(), "Conv", fmt.Sprintf("C%05d", i))
			body := "\tpanic(\"never called\")"
			fmt.Fprintf(&funcs, "%sfunc %s%s {\n%s\n}\n\n", ctxDoc(""), fn, sig, body)
			// the consuming method owns every context the function may ask for
			switch c.Consumer {
			case "extend":
				fmt.Fprintf(&conv, "// goverter:converter\n// goverter:arg:context:regex ^ctx\n// goverter:extend %s\ntype C%05d interface {\n\t// goverter:context a\n\t// goverter:context b\n\tM(source Holder, a *CtxA, b CtxB, ctxR *CtxR) (HolderOut, error)\n}\n\n", fn, i)
			case "mapfunc":
				fmt.Fprintf(&conv, "// goverter:converter\n// goverter:arg:context:regex ^ctx\ntype C%05d interface {\n\t// goverter:context a\n\t// goverter:context b\n\t// goverter:map F F | %s\n\tM(source Holder, a *CtxA, b CtxB, ctxR *CtxR) (HolderOut, error)\n}\n\n", i, fn)
			case "default":
				fmt.Fprintf(&conv, "// goverter:converter\n// goverter:arg:context:regex ^ctx\ntype C%05d interface {\n\t// goverter:context a\n\t// goverter:context b\n\t// goverter:default %s\n\tM(source In, a *CtxA, b CtxB, ctxR *CtxR) (Out, error)\n}\n\n", i, fn)
			}
		}
	}
	return map[string]string{"go.mod": "module example.com/c14\n\ngo 1.22\n", "p/types.go": c14Types, "p/conv.go": conv.String(), "p/funcs.go": funcs.String()}
}

// emittedSignature returns the parameter and result types of the emitted method or function.
func emittedSignature(src, name string) ([]string, []string, bool) {
	fset := token.NewFileSet()
	f, err := parser.ParseFile(fset, "gen.go", src, 0)
	if err != nil {
		return nil, nil, false
	}
	var ft *ast.FuncType
	ast.Inspect(f, func(n ast.Node) bool {
		switch x := n.(type) {
		case *ast.FuncDecl:
			if x.Name.Name == name {
				ft = x.Type
			}
		case *ast.AssignStmt:
			if len(x.Lhs) == 1 && len(x.Rhs) == 1 {
				if fl, ok := x.Rhs[0].(*ast.FuncLit); ok {
					if types.ExprString(x.Lhs[0]) == name || strings.HasSuffix(types.ExprString(x.Lhs[0]), "."+name) {
						ft = fl.Type
					}
				}
			}
		}
		return true
	})
	if ft == nil {
		return nil, nil, false
	}
	flat := func(fl *ast.FieldList) []string {
		var out []string
		if fl == nil {
			return out
		}
		for _, fld := range fl.List {
			n := len(fld.Names)
			if n == 0 {
				n = 1
			}
			for i := 0; i < n; i++ {
				out = append(out, types.ExprString(fld.Type))
			}
		}
		return out
	}
	return flat(ft.Params), flat(ft.Results), true
}

func qualified(t string) string {
	switch t {
	case "error", "int":
		return t
	}
	if strings.HasPrefix(t, "*") {
		return "*p." + t[1:]
	}
	return "p." + t
}

func c14Eval(t *testing.T, s *vh.Session, cases []sigCase) {
	dir := s.Scratch()
	if err := vh.WriteTree(dir, c14Program(cases)); err != nil {
		t.Fatalf("INFRA: %v", err)
	}
	l, err := vh.Load(vh.GenOpts{Dir: dir, Patterns: []string{"./p"}})
	if err != nil {
		s.Infra("C14 program does not load: " + vh.FirstLines(err.Error(), 8))
		t.Fatalf("INFRA: generated program does not load: %v", err)
	}
	results := l.PerConverter(nil, nil)
	if len(results) != len(cases) {
		t.Fatalf("INFRA: %d converters for %d cases", len(results), len(cases))
	}
	byName := map[string]vh.ConvResult{}
	for _, r := range results {
		byName[r.Name] = r
	}
	for i, c := range cases {
		name := fmt.Sprintf("C%05d", i)
		if c.Consumer == "variable" {
			name = "vars:conv.go"
		}
		r, ok := byName[name]
		if c.Consumer == "variable" {
			// variables blocks all live in conv.go: results come in declaration order
			r, ok = results[i], true
		}
		if !ok {
			t.Fatalf("INFRA: no result for %s", name)
		}
		s.Eval(1)
		if r.Panic != "" || r.Hang {
			s.FailT(t, "sig", c, "goverter panicked or hung: "+vh.PanicSig(r.Panic))
			continue
		}
		want, why := c.accept()
		roles := map[byte]bool{}
		for j := 0; j < len(c.Params); j++ {
			roles[c.Params[j]] = true
		}
		if len(c.Params) >= 2 && len(roles) >= 2 {
			s.Nontrivial(c.key(), c.key()+" => "+fmt.Sprint(want))
		}
		s.Label(fmt.Sprintf("%s:accept=%v", c.Consumer, want))
		if (r.Err == nil) != want {
			s.FailT(t, "sig", c, fmt.Sprintf("signature %s %s: the documented rule says accept=%v (%s), goverter says %s", c.Consumer, c.signature(), want, why, outcome(r.GenResult)))
			continue
		}
		if !want || (c.Consumer != "method" && c.Consumer != "variable") {
			continue
		}
		// accepted conversion methods are emitted with the declared parameters in declared order
		var text string
		for _, content := range r.Files {
			text += string(content)
		}
		fn := "M"
		if c.Consumer == "variable" {
			fn = fmt.Sprintf("V%05d", i)
		}
		ps, rs, found := emittedSignature(text, fn)
		if !found {
			s.FailT(t, "sig", c, "emitted code does not define "+fn)
			continue
		}
		var wp, wr []string
		for j := 0; j < len(c.Params); j++ {
			wp = append(wp, qualified(paramType(c.Params[j], false)))
		}
		for j := 0; j < len(c.Results); j++ {
			wr = append(wr, qualified(resultType(c.Results[j])))
		}
		if fmt.Sprint(ps) != fmt.Sprint(wp) || fmt.Sprint(rs) != fmt.Sprint(wr) {
			s.FailT(t, "sig", c, fmt.Sprintf("declared %s, emitted params %v results %v", c.signature(), ps, rs))
		}
	}
}

func seqs(alphabet string, maxLen int) []string {
	out := []string{""}
	frontier := []string{""}
	for l := 0; l < maxLen; l++ {
		var next []string
		for _, p := range frontier {
			for i := 0; i < len(alphabet); i++ {
				next = append(next, p+string(alphabet[i]))
			}
		}
		out = append(out, next...)
		frontier = next
	}
	return out
}

func validParams(p string) bool {
	// every role at most once except N; keeps names and context types unique
	for _, r := range "SXYRTC" {
		if strings.Count(p, string(r)) > 1 {
			return false
		}
	}
	return strings.Count(p, "N") <= 2
}

func c14Cases(quick bool) []sigCase {
	var out []sigCase
	// F, G: types with the method set of error that are not the built-in error
	results := append(seqs("OEZ", 3), "OF", "OG", "F", "G")
	for _, consumer := range []string{"method", "variable"} {
		for _, p := range seqs("SNXYRT", 4) {
			if !validParams(p) {
				continue
			}
			for _, r := range results {
				for _, named := range []bool{true, false} {
					if !named && p == "" {
						continue
					}
					if consumer == "variable" && (len(p) > 3 || len(r) > 2) {
						continue // variables share the parser with methods: smaller bound
					}
					out = append(out, sigCase{Consumer: consumer, Params: p, Results: r, Named: named})
				}
			}
		}
	}
	for _, consumer := range []string{"extend", "mapfunc", "default"} {
		for _, p := range seqs("SNXRC", 3) {
			if !validParams(p) {
				continue
			}
			for _, r := range append(seqs("OEZ", 2), "OF", "OG") {
				out = append(out, sigCase{Consumer: consumer, Params: p, Results: r, Named: true})
			}
		}
	}
	return out
}

func TestC14(t *testing.T) {
	s := vh.Begin(t, "C14")
	if s.ReplayIn != "" && s.ReplayTag() == "fixed" {
		c14EvalFixed(t, s)
		return
	}
	if s.ReplayIn != "" {
		var c sigCase
		if err := s.LoadReplay(&c); err != nil {
			t.Fatalf("INFRA: %v", err)
		}
		c14Eval(t, s, []sigCase{c})
		return
	}
	if s.Shard == 0 {
		c14EvalFixed(t, s)
	}
	all := c14Cases(s.Quick())
	s.Extra("signature_cases_total", len(all))
	s.Extra("exhaustive", true)
	var mine []sigCase
	for i, c := range all {
		if i%s.NShards == s.Shard {
			mine = append(mine, c)
		}
	}
	// variables blocks must be evaluated apart (results are matched by order)
	var vars, rest []sigCase
	for _, c := range mine {
		if c.Consumer == "variable" {
			vars = append(vars, c)
		} else {
			rest = append(rest, c)
		}
	}
	const chunk = 4000
	for i := 0; i < len(rest); i += chunk {
		c14Eval(t, s, rest[i:min(i+chunk, len(rest))])
	}
	for i := 0; i < len(vars); i += chunk {
		c14Eval(t, s, vars[i:min(i+chunk, len(vars))])
	}
	// random longer signatures beyond the enumerated bound
	rapid.Check(t, func(rt *rapid.T) {
		var cases []sigCase
		for k := 0; k < 30; k++ {
			n := rapid.IntRange(3, 6).Draw(rt, "nparams")
			p := ""
			for len(p) < n {
				r := rapid.SampledFrom([]string{"S", "N", "X", "Y", "R", "T"}).Draw(rt, "role")
				if validParams(p + r) {
					p += r
				} else if r != "N" {
					p += "N"
				}
				if !validParams(p) {
					p = p[:len(p)-1]
					break
				}
			}
			res := rapid.SampledFrom(seqs("OEZ", 3)).Draw(rt, "results")
			cases = append(cases, sigCase{Consumer: "method", Params: p, Results: res, Named: rapid.IntRange(0, 4).Draw(rt, "named") > 0})
		}
		c14Eval(t, s, cases)
	})
}

// fixedSigCases: consumers outside the enumeration - generic, inaccessible and non-function
// references, struct-method sources.
type fixedSigCase struct {
	Name   string `json:"name"`
	Conv   string `json:"conv"`   // converter declaration (package p)
	Accept bool   `json:"accept"` // documented outcome
}

const c14FixedTypes = `package p

type In struct{ A int }
type Out struct{ A int }
type CtxA struct{ V int }

type WithMethod struct{ A int }

func (w WithMethod) Calc() int { return w.A }
func (w WithMethod) CalcErr() (int, error) { return w.A, nil }
func (w WithMethod) CalcCtx(c *CtxA) int { return w.A + c.V }
func (w WithMethod) NoResult() {}

type OutCalc struct{ Calc int }
type OutCalcErr struct{ CalcErr int }
type OutCalcCtx struct{ CalcCtx int }
type OutNoResult struct{ NoResult int }

func Generic[T any](t T) T { return t }
func InToOut(s In) Out { return Out{A: s.A} }
func unexportedFn(s In) Out { return Out{A: s.A} }
func IntToInt(i int) int { return i }

func SharedCtxFn(a int, ctxA *CtxA) int { return a }

type In2 struct{ A int }
type Out2 struct{ A int }

var NotFunc = 1
`

var c14Fixed = []fixedSigCase{
	{"extend-generic", "// goverter:converter\n// goverter:extend Generic\ntype C%d interface{ M(source In) Out }", false},
	{"mapfunc-generic", "// goverter:converter\ntype C%d interface {\n\t// goverter:map A A | Generic\n\tM(source In) Out\n}", true},
	{"extend-unexported-other-package-output", "// goverter:converter\n// goverter:extend unexportedFn\ntype C%d interface{ M(source []In) []Out }", false},
	{"extend-unexported-same-package-output", "// goverter:converter\n// goverter:output:file ./same%d.go\n// goverter:output:package example.com/c14f/p\n// goverter:extend unexportedFn\ntype C%d interface{ M(source []In) []Out }", true},
	{"extend-non-function", "// goverter:converter\n// goverter:extend NotFunc\ntype C%d interface{ M(source In) Out }", false},
	{"extend-missing", "// goverter:converter\n// goverter:extend DoesNotExist\ntype C%d interface{ M(source In) Out }", false},
	{"mapfunc-non-function", "// goverter:converter\ntype C%d interface {\n\t// goverter:map A A | NotFunc\n\tM(source In) Out\n}", false},
	{"default-non-function", "// goverter:converter\ntype C%d interface {\n\t// goverter:default NotFunc\n\tM(source In) Out\n}", false},
	{"variables-non-function", "// goverter:variables\n// goverter:output:file ./gen/v%d.go\n// goverter:output:package example.com/c14f/p/gen%d\nvar (\n\tV%d int\n)", false},
	{"struct-method-source", "// goverter:converter\ntype C%d interface{ M(source WithMethod) OutCalc }", true},
	{"struct-method-source-error-without-result", "// goverter:converter\ntype C%d interface{ M(source WithMethod) OutCalcErr }", false},
	{"struct-method-source-error-with-result", "// goverter:converter\ntype C%d interface{ M(source WithMethod) (OutCalcErr, error) }", true},
	{"struct-method-source-needs-context-missing", "// goverter:converter\ntype C%d interface{ M(source WithMethod) OutCalcCtx }", false},
	{"struct-method-source-needs-context-present", "// goverter:converter\ntype C%d interface {\n\t// goverter:context c\n\tM(source WithMethod, c *CtxA) OutCalcCtx\n}", true},
	{"struct-method-source-no-result", "// goverter:converter\ntype C%d interface{ M(source WithMethod) OutNoResult }", false},
	// one custom function used by several converters of one run under different settings: every use
	// is classified under the settings of the converter / method that names it (the permissive use
	// comes first, so anything remembered per function would show in the strict one)
	{"extend-unexported-other-package-output-after-same-package-use", "// goverter:converter\n// goverter:extend unexportedFn\ntype C%d interface{ M(source []In) []Out }", false},
	{"mapfunc-shared-function-context-by-regex", "// goverter:converter\n// goverter:arg:context:regex ^ctx\ntype C%d interface {\n\t// goverter:map A A | SharedCtxFn\n\tM(source In, ctxA *CtxA) Out\n}", true},
	{"mapfunc-shared-function-two-methods-one-regex", "// goverter:converter\ntype C%d interface {\n\t// goverter:arg:context:regex ^ctx\n\t// goverter:map A A | SharedCtxFn\n\tA(source In, ctxA *CtxA) Out\n\t// goverter:context ctxA\n\t// goverter:map A A | SharedCtxFn\n\tB(source In2, ctxA *CtxA) Out2\n}", false},
	{"mapfunc-shared-function-without-regex", "// goverter:converter\ntype C%d interface {\n\t// goverter:context ctxA\n\t// goverter:map A A | SharedCtxFn\n\tM(source In, ctxA *CtxA) Out\n}", false},
}

func c14EvalFixed(t *testing.T, s *vh.Session) {
	var conv strings.Builder
	conv.WriteString("package p\n\n")
	for i, c := range c14Fixed {
		decl := c.Conv
		n := strings.Count(decl, "%d")
		args := make([]any, n)
		for j := range args {
			args[j] = i
		}
		conv.WriteString(fmt.Sprintf(decl, args...) + "\n\n")
	}
	dir := s.Scratch()
	if err := vh.WriteTree(dir, map[string]string{"go.mod": "module example.com/c14f\n\ngo 1.22\n", "p/types.go": c14FixedTypes, "p/conv.go": conv.String()}); err != nil {
		t.Fatalf("INFRA: %v", err)
	}
	l, err := vh.Load(vh.GenOpts{Dir: dir, Patterns: []string{"./p"}})
	if err != nil {
		s.Infra("C14 fixed program does not load: " + vh.FirstLines(err.Error(), 8))
		t.Fatalf("INFRA: %v", err)
	}
	results := l.PerConverter(nil, nil)
	byName := map[string]vh.ConvResult{}
	for _, r := range results {
		byName[r.Name] = r
	}
	for i, c := range c14Fixed {
		r, ok := byName[fmt.Sprintf("C%d", i)]
		if !ok {
			r, ok = byName["vars:conv.go"]
		}
		if !ok {
			t.Fatalf("INFRA: no result for fixed case %s", c.Name)
		}
		s.Eval(1)
		s.Nontrivial("fixed:"+c.Name, c.Name)
		s.Label(fmt.Sprintf("fixed:accept=%v", c.Accept))
		if r.Panic != "" {
			s.FailT(t, "fixed", c, "goverter panicked: "+vh.PanicSig(r.Panic))
			continue
		}
		if (r.Err == nil) != c.Accept {
			s.FailT(t, "fixed", c, fmt.Sprintf("%s: documented outcome accept=%v, goverter says %s", c.Name, c.Accept, outcome(r.GenResult)))
		}
	}
}
