package props

import (
	"fmt"
	"os"
	"path/filepath"
	"strings"
	"testing"

	"pgregory.net/rapid"

	"verif/harness/gen"
	"verif/harness/vh"
)

// c17Case is a tree plus what was done to it.
type c17Case struct {
	Tree       *gen.Tree `json:"tree"`
	PreOutputs bool      `json:"preOutputs"` // run the fault-free variant first
	EditTypes  bool      `json:"editTypes"`  // change input types before the failing run (stale outputs)
	DropOne    bool      `json:"dropOne"`    // after the first run, regenerate with one converter removed
	// VisibleStale: before the failing run, one previously generated file inside an input package
	// loses its build constraint and stops compiling (a leftover of a run with -output-constraint "")
	VisibleStale bool     `json:"visibleStale,omitempty"`
	Patterns     []string `json:"patterns"`
}

// c17Eval returns a violation message or "".
func c17Eval(s *vh.Session, c c17Case) (string, string) {
	dir := s.Scratch()
	good := withoutFaults(c.Tree)
	faulty := 0
	for _, cv := range c.Tree.Convs {
		if cv.Fault != "" {
			faulty++
		}
	}
	if err := writeLayout(dir, good); err != nil {
		return "", "INFRA: " + err.Error()
	}
	if c.PreOutputs || faulty == 0 {
		want, res := inProcessFiles(dir, c.Patterns, nil)
		if !res.OK() {
			if dbg := os.Getenv("VERIF_DEBUG"); dbg != "" {
				f, _ := os.OpenFile(dbg, os.O_APPEND|os.O_CREATE|os.O_WRONLY, 0o644)
				fmt.Fprintf(f, "----\n%v\n%v\n", res.Err, c.Tree.Convs)
				f.Close()
			}
			return "", "discard: fault-free tree does not generate: " + outcome(res)
		}
		before, _ := vh.Snapshot(dir)
		run := s.RunCLI(dir, append([]string{"gen"}, c.Patterns...)...)
		s.Eval(1)
		after, _ := vh.Snapshot(dir)
		if run.Exit != 0 {
			return fmt.Sprintf("all converters are fine but goverter exited with status %d: %s", run.Exit, shortErr(run.Stderr)), ""
		}
		if msg := checkWritten(dir, before, after, want); msg != "" {
			return "successful run: " + msg, ""
		}
		// a later successful run over these outputs with one converter less: every output
		// must again be written completely (nothing of the removed converter may survive in
		// a file that is still generated)
		if c.DropOne && len(good.Convs) > 1 {
			less := cloneTree(good)
			less.Convs = less.Convs[:len(less.Convs)-1]
			// converters are sorted by id; rebuild the declaring files without the last one
			declaring := map[string]bool{}
			for _, cv := range good.Convs {
				declaring[cv.File] = true
			}
			for f := range less.Files {
				if declaring[f] {
					delete(less.Files, f)
					_ = os.Remove(filepath.Join(dir, f))
				}
			}
			less.Rerender()
			if err := writeLayout(dir, less); err != nil {
				return "", "INFRA: " + err.Error()
			}
			want2, res2 := inProcessFiles(dir, c.Patterns, nil)
			if res2.OK() {
				before2, _ := vh.Snapshot(dir)
				run2 := s.RunCLI(dir, append([]string{"gen"}, c.Patterns...)...)
				s.Eval(1)
				after2, _ := vh.Snapshot(dir)
				if run2.Exit != 0 {
					return fmt.Sprintf("regeneration after removing a converter exited with status %d: %s", run2.Exit, shortErr(run2.Stderr)), ""
				}
				if msg := checkWritten(dir, before2, after2, want2); msg != "" {
					return "successful regeneration after removing a converter: " + msg, ""
				}
			}
			// back to the full tree for the failing-run stage
			if err := writeLayout(dir, good); err != nil {
				return "", "INFRA: " + err.Error()
			}
		}
	}
	staleApplied := false
	if c.VisibleStale && c.PreOutputs {
		inputDirs := map[string]bool{}
		for _, cv := range c.Tree.Convs {
			inputDirs[cv.Dir] = true
		}
		for _, f := range sortedKeys(generatedFiles(dir)) {
			if !inputDirs[filepath.ToSlash(filepath.Dir(f))] {
				continue
			}
			raw, err := os.ReadFile(filepath.Join(dir, f))
			if err != nil {
				continue
			}
			lines := strings.Split(string(raw), "\n")
			if len(lines) > 1 && strings.HasPrefix(lines[1], "//go:build") {
				lines = append(lines[:1], lines[2:]...)
			}
			_ = os.WriteFile(filepath.Join(dir, f), []byte(strings.Join(lines, "\n")+"\nvar _ = undefinedStale\n"), 0o644)
			staleApplied = true
			break
		}
	}
	if faulty == 0 && !staleApplied {
		return "", ""
	}
	// introduce the faults (and optionally make the existing outputs stale)
	bad := cloneTree(c.Tree)
	bad.Rerender()
	if c.EditTypes {
		for f, content := range bad.Files {
			if strings.HasSuffix(f, "/types.go") {
				bad.Files[f] = strings.Replace(content, "\tB string\n", "\tB string\n\tD int64\n", 2)
			}
		}
	}
	if err := writeLayout(dir, bad); err != nil {
		return "", "INFRA: " + err.Error()
	}
	before, _ := vh.Snapshot(dir)
	run := s.RunCLI(dir, append([]string{"gen"}, c.Patterns...)...)
	s.Eval(1)
	after, _ := vh.Snapshot(dir)
	if run.TimedOut {
		return "", "INFRA: CLI timed out"
	}
	if run.Exit != 1 {
		return fmt.Sprintf("%d of %d converters are faulty (visible stale output that does not compile: %v) but goverter exited with status %d (stderr: %s)", faulty, len(c.Tree.Convs), staleApplied, run.Exit, shortErr(run.Stderr)), ""
	}
	if strings.TrimSpace(run.Stderr) == "" {
		return "failing run printed no diagnostic on stderr", ""
	}
	created, modified, removed := before.Diff(after)
	if len(created)+len(modified)+len(removed) > 0 {
		return fmt.Sprintf("failing run changed the tree: created %v, modified %v, removed %v", created, modified, removed), ""
	}
	return "", ""
}

var argTokens = []string{"gen", "help", "version", "-h", "--help", "-help", "-g", "-global", "ignoreMissing", "-cwd", ".", "./...", "-build-tags", "x", "-output-constraint", "-bogus", "--", "bogus", "", "-g=skipCopySameType"}

// expectedUsage classifies an argument vector by the documented CLI grammar:
// "help" (exit 0), "usage" (exit 1), "other" (not decided here).
func expectedUsage(args []string) string {
	// global flag set: only -h/-help before the command
	i := 0
	for i < len(args) {
		a := args[i]
		if a == "-h" || a == "--help" || a == "-help" || a == "--h" {
			return "help"
		}
		if a == "--" {
			i++
			break
		}
		if strings.HasPrefix(a, "-") && a != "-" {
			return "usage" // unknown flag before the command
		}
		break
	}
	if i >= len(args) {
		return "usage"
	}
	switch args[i] {
	case "help":
		return "help"
	case "version":
		return "other"
	case "gen":
	default:
		return "usage"
	}
	rest := args[i+1:]
	j := 0
	for j < len(rest) {
		a := rest[j]
		if a == "--" {
			j++
			break
		}
		if !strings.HasPrefix(a, "-") || a == "-" {
			break
		}
		name := strings.TrimLeft(a, "-")
		val := ""
		hasVal := false
		if k := strings.Index(name, "="); k >= 0 {
			name, val, hasVal = name[:k], name[k+1:], true
		}
		_ = val
		switch name {
		case "h", "help":
			return "help"
		case "g", "global", "cwd", "build-tags", "output-constraint":
			if !hasVal {
				j++
				if j >= len(rest) {
					return "usage" // flag needs an argument
				}
			}
		default:
			return "usage"
		}
		j++
	}
	if j >= len(rest) {
		return "usage" // missing PATTERN
	}
	return "other"
}

func TestC17(t *testing.T) {
	s := vh.Begin(t, "C17")
	if s.CLI == "" {
		t.Fatalf("INFRA: VERIF_CLI not set")
	}
	if s.ReplayIn != "" {
		c17Replay(t, s)
		return
	}
	s.ProbeFindings(t, func(f *vh.Finding, path string) { c17Replay(t, s) })
	t.Run("trees", func(t *testing.T) {
		rapid.Check(t, func(rt *rapid.T) {
			dirHint := s.Scratch()
			o := gen.LayoutOpts{
				Faults:     rapid.SampledFrom([]int{0, 1, 1, 1, 2, 3}).Draw(rt, "faults"),
				Layouts:    rapid.Bool().Draw(rt, "layouts"),
				AbsRoot:    "",
				SharedFile: true,
				Vars:       true,
				MaxConvs:   6,
				// besides faults of single converters: packages that do not parse or type-check
				FaultKinds: []string{"directive", "signature", "conversion", "unknown-field", "enum-key", "syntax-above", "syntax-below", "type-error", "render"},
			}
			_ = dirHint
			tree := gen.Layout(rt, o)
			c := c17Case{Tree: tree, PreOutputs: rapid.Bool().Draw(rt, "pre-outputs"), EditTypes: rapid.Bool().Draw(rt, "edit-types"), DropOne: rapid.Bool().Draw(rt, "drop-one"), Patterns: []string{"./..."}, VisibleStale: rapid.IntRange(0, 3).Draw(rt, "visible-stale") == 0}
			msg, infra := c17Eval(s, c)
			if strings.HasPrefix(infra, "INFRA") {
				s.Infra(infra)
				rt.Fatalf("%s", infra)
			}
			if infra != "" {
				s.Discard(1)
				s.Label(vh.FirstLines(infra, 1))
				return
			}
			good, bad := 0, 0
			for _, cv := range tree.Convs {
				if cv.Fault == "" {
					good++
				} else {
					bad++
					s.Label("fault:" + cv.Fault)
				}
			}
			if bad > 0 && good > 0 && c.PreOutputs {
				s.Nontrivial(fmt.Sprintf("%v|%v|%v", tree.Convs, c.PreOutputs, c.EditTypes), map[string]any{"converters": len(tree.Convs), "faulty": bad, "preOutputs": c.PreOutputs, "staleOutputs": c.EditTypes})
			}
			if msg != "" {
				s.FailRapid(rt, "tree", c, "%s", msg)
			}
		})
	})
	t.Run("argv", func(t *testing.T) {
		rapid.Check(t, func(rt *rapid.T) {
			for k := 0; k < 4; k++ {
				n := rapid.IntRange(0, 5).Draw(rt, "nargs")
				var args []string
				for i := 0; i < n; i++ {
					args = append(args, rapid.SampledFrom(argTokens).Draw(rt, "arg"))
				}
				want := expectedUsage(args)
				if want == "other" {
					continue
				}
				if msg := c17Argv(s, args, want); msg != "" {
					s.FailRapid(rt, "argv", map[string]any{"args": args, "want": want}, "%s", msg)
				}
				s.Nontrivial("argv:"+strings.Join(args, "\x00"), map[string]any{"args": args, "expect": want})
			}
		})
	})
}

func c17Argv(s *vh.Session, args []string, want string) string {
	dir := s.Scratch()
	tree := &gen.Tree{Module: "example.com/lay", Files: map[string]string{"alpha/types.go": "package alpha\n"}}
	if err := writeLayout(dir, tree); err != nil {
		return ""
	}
	before, _ := vh.Snapshot(dir)
	run := s.RunCLI(dir, args...)
	s.Eval(1)
	after, _ := vh.Snapshot(dir)
	created, modified, removed := before.Diff(after)
	if len(created)+len(modified)+len(removed) > 0 {
		return fmt.Sprintf("goverter %q changed the tree: %v %v %v", args, created, modified, removed)
	}
	switch want {
	case "help":
		if run.Exit != 0 {
			return fmt.Sprintf("goverter %q is a help request but exited with %d", args, run.Exit)
		}
		if !strings.Contains(run.Stdout, "Usage:") {
			return fmt.Sprintf("goverter %q printed no usage on stdout", args)
		}
	case "usage":
		if run.Exit != 1 {
			return fmt.Sprintf("goverter %q is a usage error but exited with %d", args, run.Exit)
		}
		if strings.TrimSpace(run.Stderr) == "" {
			return fmt.Sprintf("goverter %q printed nothing on stderr", args)
		}
	}
	return ""
}

func c17Replay(t *testing.T, s *vh.Session) {
	switch s.ReplayTag() {
	case "tree":
		var c c17Case
		if err := s.LoadReplay(&c); err != nil {
			t.Fatalf("INFRA: %v", err)
		}
		msg, infra := c17Eval(s, c)
		if strings.HasPrefix(infra, "INFRA") {
			t.Fatalf("%s", infra)
		}
		if msg != "" {
			s.FailT(t, "tree", c, msg)
		}
	case "argv":
		var c struct {
			Args []string `json:"args"`
			Want string   `json:"want"`
		}
		if err := s.LoadReplay(&c); err != nil {
			t.Fatalf("INFRA: %v", err)
		}
		if msg := c17Argv(s, c.Args, c.Want); msg != "" {
			s.FailT(t, "argv", c, msg)
		}
	}
}
