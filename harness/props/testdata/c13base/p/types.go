package p

import "example.com/base/ext"

type Color int

const (
	ColorRed Color = iota
	ColorGreen
	ColorBlue
)

type Shade string

const (
	ShadeRed   Shade = "red"
	ShadeGreen Shade = "green"
	ShadeBlue  Shade = "blue"
	ShadeDark  Shade = "dark"
)

type Inner struct {
	A int
	B string
}

type InnerOut struct {
	A int
	B string
}

type In struct {
	ID     int
	Name   string
	Nested Inner
	Ptr    *Inner
	List   []Inner
	Dict   map[string]Inner
	Color  Color
	Age    int
	secret string
	Next   *In
	// pointers to things that have no fields (for source paths that try to step through them)
	PStr  *string
	PPtr  **Inner
	PList *[]Inner
}

func (i In) Full() string { return i.Name }

type Out struct {
	ID     int
	Name   string
	Nested InnerOut
	Ptr    *InnerOut
	List   []InnerOut
	Dict   map[string]InnerOut
	Color  Shade
	Age    string
	Extra  int
	secret string
	Next   *Out
}

type Flat struct {
	ID int
	A  int
	B  string
}

type Ctx struct{ Prefix string }

func AgeToString(i int) string { return ext.IntToString(i) }

// goverter:context ctx
func AgeWithCtx(i int, ctx *Ctx) string { return ctx.Prefix + ext.IntToString(i) }

func ParseAge(s string) (int, error) { return ext.StringToInt(s) }

func NoArg() int { return 42 }

func NoArgString() string { return "x" }

func NewOut() *Out { return &Out{Extra: 5} }

func NewOutFrom(in *In) *Out { return &Out{Extra: in.ID} }

func Whole(in In) int { return in.ID }

func Generic[T any](t T) T { return t }

func InnerToInnerOut(in Inner) InnerOut { return InnerOut{A: in.A, B: in.B} }

func WithConv(c Full, in Inner) InnerOut { return c.Inner(in) }
