package p

// goverter:converter
// goverter:enum:unknown @ignore
type Full interface {
	// goverter:map Age Age | AgeToString
	// goverter:ignore Extra secret
	// goverter:enum:map ColorRed ShadeRed
	Convert(source In) Out
	Inner(source Inner) InnerOut
	// goverter:enum:map ColorRed ShadeRed
	// goverter:enum:map ColorGreen ShadeGreen
	// goverter:enum:map ColorBlue ShadeBlue
	Enum(source Color) Shade
}

// goverter:converter
// goverter:extend ParseAge
type Simple interface {
	Inner(source Inner) InnerOut
	List(source []Inner) []InnerOut
	Age(source string) (int, error)
	Ptrs(source *Inner) *InnerOut
	Maps(source map[string]*Inner) map[string]*InnerOut
}

// goverter:converter
type Update interface {
	// goverter:update target
	Inner(source Inner, target *InnerOut)
	// goverter:update target
	// goverter:map Nested.A A
	// goverter:map Nested.B B
	Flat(source *In, target *Flat) error
}

// goverter:converter
// goverter:extend AgeWithCtx
type WithContext interface {
	// goverter:context ctx
	// goverter:ignore Extra secret Color Next
	Convert(source In, ctx *Ctx) Out
	Inner(source Inner) InnerOut
}

// goverter:converter
// goverter:output:format function
// goverter:output:file ./fn/generated.go
type Funcs interface {
	// goverter:autoMap Nested
	// goverter:ignore ID
	Flatten(source In) Flat
	// goverter:default NewOut
	// goverter:ignore Extra secret Color Age Next
	Default(source *In) *Out
}

// goverter:variables
// goverter:skipCopySameType
var (
	VarInner func(source Inner) InnerOut
	// goverter:map . ID | Whole
	// goverter:autoMap Nested
	VarFlat func(source In) Flat
)
