package ext

import "strconv"

func IntToString(i int) string { return strconv.Itoa(i) }

func StringToInt(s string) (int, error) { return strconv.Atoi(s) }

type Wrap struct{ V int }

func NewWrap() *Wrap { return &Wrap{V: 1} }
