package w2

type Element struct{ S string }

func Wrap(err error, path ...Element) error { return err }
func Key(k any) Element                       { return Element{} }
func Index(i int) Element                     { return Element{} }
func Field(s string) Element                  { return Element{S: s} }
