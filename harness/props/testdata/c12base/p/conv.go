package p

// Each converter is the probe of one inheritable setting: method M1 is the one whose
// placement is varied, method M2 is its sibling.

// goverter:converter
type PZeroPtr interface {
	M1(source *int) int
	M2(source *string) string
}

// goverter:converter
type PSkipCopy interface {
	M1(source chan int) chan int
	M2(source chan string) chan string
}

// goverter:converter
type PIgnoreMissing interface {
	M1(source InMissing) OutMissing
	M2(source InMissing2) OutMissing2
}

// goverter:converter
type PIgnoreUnexported interface {
	M1(source InUnexp) OutUnexp
	M2(source InUnexp2) OutUnexp2
}

// goverter:converter
type PMatchIgnoreCase interface {
	M1(source InCase) OutCase
	M2(source InCase2) OutCase2
}

// goverter:converter
// goverter:extend IntToString
type PUnderlying interface {
	M1(source MyInt) string
	M2(source []MyInt2) []string
}

// goverter:converter
type PEnum interface {
	M1(source Color) Shade
	M2(source Color2) Shade2
}

// goverter:converter
type PEnumUnknown interface {
	// goverter:enum:map ColorRed ShadeRed
	// goverter:enum:map ColorBlue ShadeBlue
	M1(source Color) Shade
	// goverter:enum:map Color2Red Shade2Red
	M2(source Color2) Shade2
}

// goverter:converter
// goverter:extend ParseInt
type PWrapErrors interface {
	M1(source InErr) (OutErr, error)
	M2(source InErr2) (OutErr2, error)
}

// goverter:converter
// goverter:extend ParseInt
type PWrapErrorsUsing interface {
	M1(source InErr) (OutErr, error)
	M2(source InErr2) (OutErr2, error)
}

// goverter:converter
// goverter:skipCopySameType
type PZeroField interface {
	// goverter:update target
	M1(source InZero, target *OutZero)
	// goverter:update target
	M2(source InZero2, target *OutZero2)
}

// goverter:converter
// goverter:skipCopySameType
type PZeroBasic interface {
	// goverter:update target
	M1(source InZero, target *OutZero)
	// goverter:update target
	M2(source InZero2, target *OutZero2)
}

// goverter:converter
// goverter:skipCopySameType
type PZeroStruct interface {
	// goverter:update target
	M1(source InZero, target *OutZero)
	// goverter:update target
	M2(source InZero2, target *OutZero2)
}

// goverter:converter
// goverter:skipCopySameType
type PZeroNillable interface {
	// goverter:update target
	M1(source InZero, target *OutZero)
	// goverter:update target
	M2(source InZero2, target *OutZero2)
}

// goverter:converter
type PDefaultUpdate interface {
	// goverter:default NewOutDef
	// goverter:ignore B
	M1(source *InDef) *OutDef
	// goverter:default NewOutDef2
	// goverter:ignore B
	M2(source *InDef2) *OutDef2
}

// goverter:converter
// goverter:extend WithCtx
type PContextRegex interface {
	M1(source InCtx, ctxValue *Ctx) OutCtx
	M2(source InCtx2, ctxValue *Ctx) OutCtx2
}

// goverter:converter
type PContextRegexFunc interface {
	// goverter:context ctxValue
	// goverter:map A | MapWithCtx
	M1(source InCtxF, ctxValue *Ctx) OutCtxF
	// goverter:context ctxValue
	// goverter:map A | MapWithCtx
	M2(source InCtxF2, ctxValue *Ctx) OutCtxF2
}

// goverter:converter
type PContextRegexDefault interface {
	// goverter:context ctxValue
	// goverter:default NewWithCtx
	M1(source InCtxD, ctxValue *Ctx) *OutCtxD
	// goverter:context ctxValue
	// goverter:default NewWithCtx2
	M2(source InCtxD2, ctxValue *Ctx) *OutCtxD2
}

// goverter:converter
type PFormatOrder interface {
	M1(source InFO) OutFO
	M2(source InFO2) OutFO2
}

// ConvLast takes the converter interface as its last parameter (it lives next to the interface:
// the command line leg keeps one converter per run and drops the rest of this file).
func ConvLast(a int, c PFormatOrder) string { return "" }

type InFO struct{ A int }
type OutFO struct{ A string }
type InFO2 struct{ A int }
type OutFO2 struct{ A string }

// goverter:converter
type PEnumShared interface {
	M1(source []Color) []Shade
	M2(source map[string]Color) map[string]Shade
}
