package p

import "errors"

type MyInt int

type Color int

const (
	ColorRed Color = iota
	ColorBlue
)

type Shade int

const (
	ShadeRed Shade = iota
	ShadeBlue
)

type InMissing struct{ A int }
type OutMissing struct {
	A int
	B int
}

type InUnexp struct {
	A int
	b int
}
type OutUnexp struct {
	A int
	b int
}

type InCase struct{ NAme string }
type OutCase struct{ Name string }

type InErr struct{ A string }
type OutErr struct{ A int }

type InZero struct {
	A int
	S struct{ X int }
	F chan int
}
type OutZero struct {
	A int
	S struct{ X int }
	F chan int
}

type InDef struct{ A int }
type OutDef struct {
	A int
	B int
}

type Ctx struct{ V int }

func IntToString(i int) string { return "" }

func ParseInt(s string) (int, error) { return 0, errors.New("x") }

func NewOutDef() *OutDef { return &OutDef{B: 7} }

// goverter:context ctxValue
func WithCtx(i int, ctxValue *Ctx) string { return "" }

// custom functions of map ... | FUNC: their second parameter is a context only by arg:context:regex
func MapWithCtx(a int, ctxValue *Ctx) string  { return "" }
func MapWithCtx2(a int, ctxValue *Ctx) string { return "" }

type InCtxF struct{ A int }
type OutCtxF struct{ A string }
type InCtxF2 struct{ A int }
type OutCtxF2 struct{ A string }

// default functions whose only parameter is a context by arg:context:regex
func NewWithCtx(ctxValue *Ctx) *OutCtxD   { return &OutCtxD{} }
func NewWithCtx2(ctxValue *Ctx) *OutCtxD2 { return &OutCtxD2{} }

type InCtxD struct{ A int }
type OutCtxD struct{ A int }
type InCtxD2 struct{ A int }
type OutCtxD2 struct{ A int }

// an extend function over types nothing else uses: written with -g in front of other -g lines
type GlobalIn struct{ A int }
type GlobalOut struct{ A int }

func GlobalExt(g GlobalIn) GlobalOut { return GlobalOut{A: g.A} }

// second shapes for sibling methods
type InMissing2 struct{ A int }
type OutMissing2 struct {
	A int
	B int
}
type InCase2 struct{ NAme string }
type OutCase2 struct{ Name string }
type InUnexp2 struct {
	A int
	b int
}
type OutUnexp2 struct {
	A int
	b int
}
type InErr2 struct{ A string }
type OutErr2 struct{ A int }
type InZero2 struct {
	A int
	S struct{ X int }
	F chan int
}
type OutZero2 struct {
	A int
	S struct{ X int }
	F chan int
}
type InDef2 struct{ A int }
type OutDef2 struct {
	A int
	B int
}

func NewOutDef2() *OutDef2 { return &OutDef2{B: 7} }

type MyInt2 int
type Color2 int

const (
	Color2Red Color2 = iota
)

type Shade2 int

const (
	Shade2Red Shade2 = iota
)

type InCtx struct{ A int }
type OutCtx struct{ A string }
type InCtx2 struct{ A int }
type OutCtx2 struct{ A string }
