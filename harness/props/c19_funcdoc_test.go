package props

import (
	"fmt"
	"strings"
	"testing"

	"pgregory.net/rapid"

	"verif/harness/vh"
)

// Doc comments of custom functions (C19: "... and to custom functions"): observed by effect.
// Every case is a function fn(a int, c *Ctx) string used through `map A | fn` by a method
// that owns a context of type *Ctx. The function is usable exactly when its own attached doc
// comment holds the setting line `context c`; otherwise it has two sources and generation of
// that converter must fail.

type funcDocCase struct {
	Place    string `json:"place"`    // none | attached | detached | trailing | body | not-at-start | star-block
	Style    int    `json:"style"`    // attached: comment style
	Extra    int    `json:"extra"`    // further comment lines around the directive
	Exported bool   `json:"exported"` // unexported functions need output into their own package
	Setting  bool   `json:"setting"`  // the independent reading: the attached doc holds the line
}

type funcDocProgram struct {
	Cases []funcDocCase `json:"cases"`
}

var funcDocPlaces = []string{"none", "attached", "attached", "attached", "detached", "trailing", "body", "not-at-start", "star-block"}

func genFuncDocProgram(rt *rapid.T) funcDocProgram {
	n := rapid.IntRange(4, 10).Draw(rt, "ncases")
	var p funcDocProgram
	for i := 0; i < n; i++ {
		c := funcDocCase{
			Place:    rapid.SampledFrom(funcDocPlaces).Draw(rt, "place"),
			Style:    rapid.IntRange(0, 5).Draw(rt, "style"),
			Extra:    rapid.IntRange(0, 3).Draw(rt, "extra"),
			Exported: rapid.Bool().Draw(rt, "exported"),
		}
		c.Setting = c.Place == "attached"
		p.Cases = append(p.Cases, c)
	}
	return p
}

func (c funcDocCase) render(i int) (fn, conv string) {
	name := fmt.Sprintf("withCtx%d", i)
	if c.Exported {
		name = fmt.Sprintf("WithCtx%d", i)
	}
	const d = "goverter:context c"
	var doc, trail, body string
	plain := []string{"// " + name + " combines a value and a context.\n", "//\n", "// see the goverter docs\n"}
	switch c.Place {
	case "attached":
		switch c.Style {
		case 0:
			doc = "// " + d + "\n"
		case 1:
			doc = "//" + d + "\n"
		case 2:
			doc = "//\t  " + d + "  \n"
		case 3:
			doc = "/* " + d + " */\n"
		case 4:
			doc = "/*\nsome words\n\t" + d + "  \n*/\n"
		default:
			doc = "// " + d + " \t \n"
		}
	case "detached":
		doc = "// " + d + "\n\n"
	case "trailing":
		trail = " // " + d
	case "body":
		body = "\t// " + d + "\n"
	case "not-at-start":
		doc = "// note: " + d + "\n"
	case "star-block":
		doc = "/*\n * " + d + "\n */\n"
	}
	// further plain lines before / after (they stay attached: no blank line)
	pre, post := "", ""
	if c.Place != "detached" {
		for k := 0; k < c.Extra; k++ {
			if k%2 == 0 {
				pre += plain[k%len(plain)]
			} else {
				post += plain[k%len(plain)]
			}
		}
	}
	fn = fmt.Sprintf("%s%s%sfunc %s(a int, c *Ctx) string {%s\n%s\treturn \"\"\n}\n\n", pre, doc, post, name, trail, body)
	out := ""
	if !c.Exported {
		out = fmt.Sprintf("// goverter:output:file ./zz_gen%d.go\n// goverter:output:package example.com/c19f/p\n", i)
	}
	conv = fmt.Sprintf("// goverter:converter\n%stype F%02d interface {\n\t// goverter:context c\n\t// goverter:map A | %s\n\tM(source In, c *Ctx) Out\n}\n\n", out, i, name)
	return fn, conv
}

func (p funcDocProgram) files() map[string]string {
	var fns, convs strings.Builder
	fns.WriteString("package p\n\n")
	convs.WriteString("package p\n\ntype In struct{ A int }\ntype Out struct{ A string }\ntype Ctx struct{ V int }\n\n")
	for i, c := range p.Cases {
		f, cv := c.render(i)
		fns.WriteString(f)
		convs.WriteString(cv)
	}
	return map[string]string{"go.mod": "module example.com/c19f\n\ngo 1.22\n", "p/funcs.go": fns.String(), "p/conv.go": convs.String()}
}

func c19EvalFuncDocs(s *vh.Session, p funcDocProgram) string {
	dir := s.Scratch()
	if err := vh.WriteTree(dir, p.files()); err != nil {
		return "INFRA: " + err.Error()
	}
	l, err := vh.Load(vh.GenOpts{Dir: dir, Patterns: []string{"./p"}})
	if err != nil {
		return "INFRA: function-doc program does not load: " + vh.FirstLines(err.Error(), 6)
	}
	results := l.PerConverter(nil, nil)
	if len(results) != len(p.Cases) {
		return fmt.Sprintf("INFRA: %d converters for %d cases", len(results), len(p.Cases))
	}
	for _, r := range results {
		var i int
		fmt.Sscanf(r.Name, "F%02d", &i)
		c := p.Cases[i]
		s.Eval(1)
		s.Label("funcdoc:" + c.Place)
		if r.Panic != "" {
			return fmt.Sprintf("function %d (%s): goverter panicked: %s", i, c.Place, vh.PanicSig(r.Panic))
		}
		if (r.Err == nil) != c.Setting {
			got := "is treated as a setting (generation succeeds)"
			detail := ""
			if r.Err != nil {
				got = "is not treated as a setting (generation fails)"
				detail = "\n" + vh.FirstLines(r.Err.Error(), 8)
			}
			return fmt.Sprintf("custom function %d: `goverter:context c` placed %q (style %d, exported=%v) %s; attached doc comment holds the line: %v%s", i, c.Place, c.Style, c.Exported, got, c.Setting, detail)
		}
	}
	return ""
}

func c19FuncDocs(t *testing.T, s *vh.Session) {
	rapid.Check(t, func(rt *rapid.T) {
		p := genFuncDocProgram(rt)
		msg := c19EvalFuncDocs(s, p)
		if strings.HasPrefix(msg, "INFRA") {
			s.Infra(msg)
			rt.Fatalf("%s", msg)
		}
		places := map[string]bool{}
		for _, c := range p.Cases {
			places[c.Place] = true
		}
		if len(places) >= 2 {
			s.Nontrivial(fmt.Sprintf("funcdocs:%+v", p.Cases), map[string]any{"functionDocs": p.Cases})
		}
		if msg != "" {
			s.FailRapid(rt, "funcdocs", p, "%s", msg)
		}
	})
}

// Values are "the text after the first space": observable where a value is copied verbatim
// into the output (output:raw). The raw text is a constant with a raw string literal whose lines
// start with drawn white space; formatting never touches the inside of a raw string, so the
// emitted file must hold every line with exactly the white space that follows the separating space.
type rawValueCase struct {
	Indents []string `json:"indents"` // leading white space of each raw line (after the separating space)
}

func (c rawValueCase) files() (map[string]string, []string) {
	var doc strings.Builder
	var want []string
	doc.WriteString("// goverter:converter\n// goverter:output:raw const RawText = `\n")
	for i, ind := range c.Indents {
		line := fmt.Sprintf("%sraw line %d", ind, i)
		want = append(want, line)
		doc.WriteString("// goverter:output:raw " + line + "\n")
	}
	doc.WriteString("// goverter:output:raw `\n")
	src := "package p\n\ntype In struct{ A int }\ntype Out struct{ A int }\n\n" + doc.String() + "type V interface {\n\tM(source In) Out\n}\n"
	return map[string]string{"go.mod": "module example.com/c19v\n\ngo 1.22\n", "p/conv.go": src}, want
}

func c19EvalRawValues(s *vh.Session, c rawValueCase) string {
	dir := s.Scratch()
	files, want := c.files()
	if err := vh.WriteTree(dir, files); err != nil {
		return "INFRA: " + err.Error()
	}
	l, err := vh.Load(vh.GenOpts{Dir: dir, Patterns: []string{"./p"}})
	if err != nil {
		return "INFRA: raw-value program does not load: " + vh.FirstLines(err.Error(), 6)
	}
	res := l.PerConverter(nil, nil)
	s.Eval(1)
	if len(res) != 1 || res[0].Panic != "" {
		return "INFRA: raw-value program: unexpected result"
	}
	if res[0].Err != nil {
		return "raw output lines of a raw string constant made generation fail: " + vh.FirstLines(res[0].Err.Error(), 6)
	}
	var text string
	for _, b := range res[0].Files {
		text += string(b)
	}
	for _, w := range want {
		if !strings.Contains(text, "\n"+w+"\n") {
			return fmt.Sprintf("output:raw value %q (the text after the first space) is not in the emitted file as written", w)
		}
	}
	return ""
}

func c19RawValues(t *testing.T, s *vh.Session) {
	rapid.Check(t, func(rt *rapid.T) {
		n := rapid.IntRange(1, 4).Draw(rt, "nlines")
		var c rawValueCase
		for i := 0; i < n; i++ {
			c.Indents = append(c.Indents, rapid.SampledFrom([]string{"", " ", "    ", "\t", "\t\t", " \t ", "        "}).Draw(rt, "indent"))
		}
		msg := c19EvalRawValues(s, c)
		if strings.HasPrefix(msg, "INFRA") {
			s.Infra(msg)
			rt.Fatalf("%s", msg)
		}
		s.Label("raw-values")
		s.Nontrivial(fmt.Sprintf("rawvalues:%q", c.Indents), nil)
		if msg != "" {
			s.FailRapid(rt, "rawvalues", c, "%s", msg)
		}
	})
}
