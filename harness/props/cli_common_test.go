package props

import (
	"fmt"
	"os"
	"path/filepath"
	"sort"
	"strings"

	"verif/harness/gen"
	"verif/harness/vh"
)

// writeLayout writes a layout tree (with go.mod) below dir.
func writeLayout(dir string, t *gen.Tree) error {
	files := map[string]string{"go.mod": "module " + t.Module + "\n\ngo 1.22\n"}
	for k, v := range t.Files {
		files[k] = v
	}
	return vh.WriteTree(dir, files)
}

// cloneTree deep-copies a tree.
func cloneTree(t *gen.Tree) *gen.Tree {
	c := &gen.Tree{Module: t.Module, Files: map[string]string{}, Existing: map[string]string{}}
	for k, v := range t.Files {
		c.Files[k] = v
	}
	for k, v := range t.Existing {
		c.Existing[k] = v
	}
	c.Convs = append(c.Convs, t.Convs...)
	return c
}

// withoutFaults returns the tree with every fault removed.
func withoutFaults(t *gen.Tree) *gen.Tree {
	c := cloneTree(t)
	for i := range c.Convs {
		c.Convs[i].Fault = ""
	}
	c.Rerender()
	return c
}

// inProcessFiles generates in-process and returns relative path -> content.
func inProcessFiles(dir string, patterns []string, global []string) (map[string]string, vh.GenResult) {
	res := vh.Generate(vh.GenOpts{Dir: dir, Patterns: patterns, Global: global})
	if !res.OK() {
		return nil, res
	}
	return vh.RelFiles(dir, res.Files), res
}

func sortedKeys(m map[string]string) []string {
	out := make([]string, 0, len(m))
	for k := range m {
		out = append(out, k)
	}
	sort.Strings(out)
	return out
}

// checkWritten verifies that exactly the expected files were created or modified and
// that their content is complete.
func checkWritten(dir string, before, after vh.Snap, want map[string]string) string {
	created, modified, removed := before.Diff(after)
	if len(removed) > 0 {
		return fmt.Sprintf("files were removed: %v", removed)
	}
	touched := map[string]bool{}
	for _, p := range append(created, modified...) {
		if !after[p].Dir {
			touched[p] = true
		}
	}
	for p := range touched {
		if _, ok := want[p]; !ok {
			return fmt.Sprintf("unexpected file written: %s (expected %v)", p, sortedKeys(want))
		}
	}
	for p, content := range want {
		raw, err := os.ReadFile(filepath.Join(dir, p))
		if err != nil {
			return fmt.Sprintf("expected output %s is missing: %v", p, err)
		}
		if string(raw) != content {
			return fmt.Sprintf("output %s is not the complete generated content (%d bytes on disk, %d expected)", p, len(raw), len(content))
		}
	}
	return ""
}

func shortErr(s string) string { return vh.FirstLines(strings.TrimSpace(s), 6) }
