package props

import (
	"fmt"
	"go/ast"
	"go/parser"
	"go/token"
	"sort"
	"strings"
	"testing"

	"pgregory.net/rapid"

	"verif/harness/spec"
	"verif/harness/vh"
)

// c18MissingImport: a package of the program is used as a qualifier in the file without being
// imported under that name.
func c18MissingImport(name, src string, pkgNames map[string]bool) string {
	fset := token.NewFileSet()
	f, err := parser.ParseFile(fset, name, src, 0)
	if err != nil {
		return ""
	}
	imported := map[string]bool{}
	for _, im := range f.Imports {
		p := strings.Trim(im.Path.Value, `"`)
		n := p[strings.LastIndex(p, "/")+1:]
		if im.Name != nil {
			n = im.Name.Name
		}
		imported[n] = true
	}
	unresolved := map[*ast.Ident]bool{}
	for _, id := range f.Unresolved {
		unresolved[id] = true
	}
	missing := ""
	ast.Inspect(f, func(n ast.Node) bool {
		if sel, ok := n.(*ast.SelectorExpr); ok {
			if id, ok := sel.X.(*ast.Ident); ok && unresolved[id] && pkgNames[id.Name] && !imported[id.Name] && missing == "" {
				missing = id.Name
			}
		}
		return true
	})
	if missing != "" {
		return fmt.Sprintf("%s uses package %q (%s.…) without importing it", name, missing, missing)
	}
	return ""
}

// c18Inspect checks one emitted file: imports and top-level declarations.
// allowed: import paths of the user's packages; fmtAllowed: an enum @error/@panic action
// or wrapErrors is in effect somewhere in the converter.
func c18Inspect(name, src string, allowed map[string]bool, fmtAllowed bool, raw []string) string {
	fset := token.NewFileSet()
	f, err := parser.ParseFile(fset, name, src, parser.ParseComments)
	if err != nil {
		return name + ": does not parse: " + err.Error()
	}
	for _, im := range f.Imports {
		p := strings.Trim(im.Path.Value, `"`)
		switch {
		case p == "reflect" || p == "unsafe":
			return fmt.Sprintf("%s imports %q", name, p)
		case p == "fmt":
			if !fmtAllowed {
				return name + " imports fmt although neither an enum @error/@panic action nor wrapErrors is in effect"
			}
		case !allowed[p]:
			return fmt.Sprintf("%s imports %q, which owns no type or custom function of the converters", name, p)
		}
	}
	inits := 0
	for _, d := range f.Decls {
		switch x := d.(type) {
		case *ast.GenDecl:
			switch x.Tok {
			case token.IMPORT:
			case token.TYPE:
				for _, sp := range x.Specs {
					ts := sp.(*ast.TypeSpec)
					st, ok := ts.Type.(*ast.StructType)
					if !ok || st.Fields.NumFields() != 0 {
						return fmt.Sprintf("%s declares type %s, which is not an empty converter struct", name, ts.Name.Name)
					}
				}
			default:
				return fmt.Sprintf("%s declares package-level %s", name, x.Tok)
			}
		case *ast.FuncDecl:
			if x.Recv == nil && x.Name.Name == "init" {
				inits++
				for _, st := range x.Body.List {
					as, ok := st.(*ast.AssignStmt)
					if !ok || as.Tok != token.ASSIGN || len(as.Lhs) != 1 {
						return name + ": init() contains something else than assignments of function variables"
					}
					if _, ok := as.Rhs[0].(*ast.FuncLit); !ok {
						return name + ": init() assigns something that is not a function literal"
					}
				}
			}
		}
	}
	if inits > 1 {
		return name + " declares several init functions"
	}
	return ""
}

func TestC18(t *testing.T) {
	s := vh.Begin(t, "C18")
	eval := func(c runCase) (string, string, int) {
		msg, note, out := c01Eval(s, c)
		if note != "" {
			return "", note, 0
		}
		// compile problems and shadowing are C01's business
		_ = msg
		if out != nil && out.BuildErr != "" {
			// one kind of compile problem belongs here: a package that is used but not imported
			// (the import set is then not "exactly the packages that own the types ... used")
			names := map[string]bool{}
			for _, pk := range c.Conv.Prog.Pkgs {
				names[pk.Name] = true
			}
			for n, src := range out.Files {
				if m := c18MissingImport(n, src, names); m != "" {
					return m, "", len(out.Files)
				}
			}
		}
		if out == nil || out.BuildErr != "" {
			return "", "discard: does not compile", 0
		}
		allowed := map[string]bool{}
		for _, pk := range c.Conv.Prog.Pkgs {
			allowed[c.Conv.Prog.ImportPath(pk.Key)] = true
		}
		// packages outside the program (standard library) that own a type of the program
		var walk func(t *spec.T, depth int)
		walk = func(t *spec.T, depth int) {
			if t == nil || depth > 12 {
				return
			}
			if t.K == spec.KNamed && t.Pkg != "" && c.Conv.Prog.Pkg(t.Pkg) == nil {
				allowed[c.Conv.Prog.ImportPath(t.Pkg)] = true
			}
			walk(t.Elem, depth+1)
			walk(t.Key, depth+1)
			for _, a := range t.Args {
				walk(a, depth+1)
			}
			for _, f := range t.Fields {
				walk(f.T, depth+1)
			}
		}
		for _, pk := range c.Conv.Prog.Pkgs {
			for _, d := range pk.Types {
				walk(d.U, 0)
			}
		}
		for _, m := range c.Conv.Methods {
			walk(m.Source, 0)
			walk(m.Target, 0)
		}
		if c.Conv.Settings.Wrap == "using" {
			allowed[c.Conv.Settings.WrapPkg] = true
		}
		fmtAllowed := c.Conv.Settings.Wrap == "errors"
		check := func(x string) {
			if x == "@error" || x == "@panic" {
				fmtAllowed = true
			}
		}
		check(c.Conv.Settings.EnumUnknown)
		for _, m := range c.Conv.Methods {
			check(m.Settings.EnumUnknown)
			if m.Settings.Wrap == "errors" {
				fmtAllowed = true
			}
			for _, v := range m.EnumMap {
				check(v)
			}
		}
		names := make([]string, 0, len(out.Files))
		for n := range out.Files {
			names = append(names, n)
		}
		sort.Strings(names)
		for _, n := range names {
			if m := c18Inspect(n, out.Files[n], allowed, fmtAllowed, nil); m != "" {
				return m, "", len(names)
			}
		}
		return "", "", len(names)
	}
	if s.ReplayIn != "" {
		var c runCase
		if err := s.LoadReplay(&c); err != nil {
			t.Fatalf("INFRA: %v", err)
		}
		msg, note, _ := eval(c)
		s.Eval(1)
		if strings.HasPrefix(note, "INFRA") {
			t.Fatalf("%s", note)
		}
		if msg != "" {
			s.FailT(t, "prog", c, msg)
		}
		return
	}
	rapid.Check(t, func(rt *rapid.T) {
		c, b := anyProgram(rt, s)
		msg, note, nfiles := eval(c)
		s.Eval(1)
		if strings.HasPrefix(note, "INFRA") {
			s.Infra(note)
			rt.Fatalf("%s", note)
		}
		if note != "" {
			s.Discard(1)
			s.Label(vh.FirstLines(note, 1))
			return
		}
		s.LabelN("files", nfiles)
		s.Label("format:" + c.Format)
		s.Label("wrap:" + c.Conv.Settings.Wrap)
		if len(b.Funcs) > 0 {
			s.Label("custom-functions")
		}
		if len(c.Conv.Prog.Pkgs) >= 2 || c.Format != "" {
			s.Nontrivial(progSummary(c.Conv)+c.Format+c.Conv.Settings.Wrap, progSummary(c.Conv))
		}
		if msg != "" {
			s.FailRapid(rt, "prog", c, "%s", msg)
		}
	})
}
