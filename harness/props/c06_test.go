package props

import (
	"fmt"
	"testing"

	"pgregory.net/rapid"

	"verif/harness/gen"
	"verif/harness/vh"
)

func c06Opts(rt *rapid.T, fallible bool) gen.Opts {
	return gen.Opts{
		MaxDepth:      rapid.IntRange(2, 4).Draw(rt, "maxdepth"),
		SamePkg:       rapid.IntRange(0, 3).Draw(rt, "samepkg") == 0,
		FieldSettings: rapid.Bool().Draw(rt, "fieldsettings"),
		Flags:         rapid.Bool().Draw(rt, "flags"),
		SkipCopy:      rapid.IntRange(0, 2).Draw(rt, "skipcopy") == 0,
		Custom:        true,
		Fallible:      fallible,
		Contexts:      3,
		ConvArg:       true,
		UseUnderlying: rapid.IntRange(0, 3).Draw(rt, "underlying") == 0,
		MaxFields:     4,
	}
}

// TestC06: custom functions and declared methods are used wherever their types occur.
func TestC06(t *testing.T) {
	s := vh.Begin(t, "C06")
	if s.ReplayIn != "" && s.ReplayTag() == "prog" {
		c03ReplayRandom(t, s)
		return
	}
	if s.ReplayIn != "" {
		runCaseReplay(t, s)
		return
	}
	s.ProbeFindings(t, func(f *vh.Finding, path string) { runCaseReplay(t, s) })
	values := s.Pick(60, 200)
	// generation only: one declared method does not own a context that its custom functions may need
	t.Run("context-unavailable", func(t *testing.T) {
		rapid.Check(t, func(rt *rapid.T) {
			for k := 0; k < 4; k++ {
				o := c06Opts(rt, rapid.Bool().Draw(rt, "fallible"))
				o.DropContext = true
				o.UseUnderlying = rapid.Bool().Draw(rt, "underlying-neg")
				b := gen.New(rt, o)
				n := rapid.IntRange(1, 3).Draw(rt, "nmethods")
				for i := 0; i < n; i++ {
					b.StructMethod(fmt.Sprintf("M%d", i), min(o.MaxDepth, 3))
				}
				b.Conv.Settings.EnumOff = true
				b.Finish()
				c := progCase{Conv: b.Conv}
				msg, ok := c03CheckProgram(s, c)
				if !ok {
					s.Infra(msg)
					rt.Fatalf("%s", msg)
				}
				for l, cnt := range b.Labels {
					if l == "defect:context-not-owned" || l == "func:context" || l == "extend:underlying" {
						s.LabelN("ctxneg:"+l, cnt)
					}
				}
				if b.Labels["defect:context-not-owned"] > 0 {
					s.Nontrivial("ctxneg:"+progSummary(b.Conv), nil)
				}
				if msg != "" {
					s.FailRapid(rt, "prog", c, "%s", msg)
				}
			}
		})
	})
	rapid.Check(t, func(rt *rapid.T) {
		o := c06Opts(rt, rapid.Bool().Draw(rt, "fallible"))
		b := gen.New(rt, o)
		n := rapid.IntRange(2, 4).Draw(rt, "nmethods")
		for i := 0; i < n; i++ {
			if rapid.Bool().Draw(rt, "struct-method") {
				b.StructMethod(fmt.Sprintf("M%d", i), o.MaxDepth)
			} else {
				b.Method(fmt.Sprintf("M%d", i), o.MaxDepth)
			}
		}
		if rapid.IntRange(0, 3).Draw(rt, "recursive-late") == 0 {
			b.RecursiveLate("R0")
		}
		b.Conv.Settings.EnumOff = true
		b.Finish()
		c := runCase{Conv: b.Conv, Mode: "value", Values: values, Seed: rapid.Uint64().Draw(rt, "drvseed"), Funcs: b.Funcs}
		v := executeRunCase(s, c)
		for l, k := range b.Labels {
			s.LabelN("gen:"+l, k)
		}
		s.LabelN("program:contexts", len(b.Ctx))
		s.LabelN("program:custom-functions", len(b.Funcs))
		handleRunVerdict(rt, s, c, v)
	})
}
