package props

import (
	"verif/harness/spec"
)

// alphabetProgram is the fixed three-package program the exhaustive type-pair
// enumeration (C03) builds its converters on.
func alphabetProgram() *spec.Program {
	p := &spec.Package{Key: "p", Path: "p", Name: "p"}
	q := &spec.Package{Key: "q", Path: "q", Name: "q"}
	p.Types = []*spec.TypeDecl{
		{Name: "NI", U: spec.Basic("int")},
		{Name: "EA", U: spec.Basic("int"), Consts: []spec.Const{{Name: "One", Value: "1"}, {Name: "Two", Value: "2"}}},
		{Name: "ES", U: spec.Basic("string"), Consts: []spec.Const{{Name: "SOne", Value: `"one"`}}},
		{Name: "SA", U: spec.Struct(spec.F("X", spec.Basic("int")), spec.F("Y", spec.Basic("string")))},
	}
	q.Types = []*spec.TypeDecl{
		{Name: "EA", U: spec.Basic("int"), Consts: []spec.Const{{Name: "One", Value: "1"}, {Name: "Two", Value: "2"}}},
		{Name: "SA", U: spec.Struct(spec.F("X", spec.Basic("int")), spec.F("Y", spec.Basic("string")))},
		{Name: "SC", U: spec.Struct(spec.F("X", spec.Basic("int")))},
	}
	// r.EA: same member names as the int enums, other basic kind - convertible only as an enum
	r := &spec.Package{Key: "r", Path: "r", Name: "r"}
	r.Types = []*spec.TypeDecl{
		{Name: "EA", U: spec.Basic("string"), Consts: []spec.Const{{Name: "One", Value: `"one"`}, {Name: "Two", Value: `"two"`}}},
	}
	return &spec.Program{Module: "example.com/m", Pkgs: []*spec.Package{p, q, r}}
}

func alphabetAtoms(reduced bool) []*spec.T {
	atoms := []*spec.T{
		spec.Basic("int"), spec.Basic("int64"), spec.Basic("string"), spec.Basic("bool"),
		spec.Named("p", "NI"), spec.Named("p", "EA"), spec.Named("q", "EA"), spec.Named("r", "EA"),
		spec.Named("p", "SA"), spec.Named("q", "SA"), spec.Named("q", "SC"),
		spec.Iface("any"), spec.Named("", "error"), spec.Func("func()"), spec.Chan("chan", spec.Basic("int")),
	}
	if !reduced {
		atoms = append(atoms, spec.Basic("float64"), spec.Named("p", "ES"))
	}
	return atoms
}

func comparable(prog *spec.Program, t *spec.T) bool {
	u := prog.Underlying(t)
	switch u.K {
	case spec.KBasic, spec.KPtr, spec.KChan, spec.KIface:
		return true
	case spec.KNamed:
		return u.Name == "error"
	case spec.KArray:
		return comparable(prog, u.Elem)
	case spec.KStruct:
		for _, f := range u.Fields {
			if !comparable(prog, f.T) {
				return false
			}
		}
		return true
	}
	return false
}

// applyConstructors returns every type with exactly one more constructor application.
func applyConstructors(prog *spec.Program, base []*spec.T) []*spec.T {
	var out []*spec.T
	for _, t := range base {
		out = append(out, spec.Ptr(t), spec.Slice(t), spec.Array(2, t), spec.Map(spec.Basic("string"), t), spec.Struct(spec.F("F", t)))
		if comparable(prog, t) {
			out = append(out, spec.Map(t, spec.Basic("string")))
		}
	}
	return out
}

func outerKind(prog *spec.Program, t *spec.T) string {
	u := prog.Underlying(t)
	if u.K == spec.KArray {
		return spec.KSlice
	}
	return u.K
}
