package props

import (
	"embed"
	"fmt"
	"io/fs"
	"os"
	"path/filepath"
	"sort"
	"strings"
	"sync"
	"testing"

	"github.com/jmattheis/goverter/config"
	"pgregory.net/rapid"

	"verif/harness/gen"
	"verif/harness/spec"
	"verif/harness/vh"
)

//go:embed testdata/c13base
var c13base embed.FS

func copyEmbed(fsys embed.FS, root, dst string) error {
	return fs.WalkDir(fsys, root, func(p string, d fs.DirEntry, err error) error {
		if err != nil {
			return err
		}
		rel, _ := filepath.Rel(root, p)
		out := filepath.Join(dst, strings.TrimSuffix(rel, ".txt"))
		if d.IsDir() {
			return os.MkdirAll(out, 0o755)
		}
		raw, err := fsys.ReadFile(p)
		if err != nil {
			return err
		}
		return os.WriteFile(out, raw, 0o644)
	})
}

// dirCase is one directive-fuzzing case against the base program.
type dirCase struct {
	Converter string   `json:"converter"` // interface name or "vars"
	Position  string   `json:"position"`  // global | converter | method
	Method    string   `json:"method,omitempty"`
	At        int      `json:"at"` // insertion index (clamped)
	Lines     []string `json:"lines"`
}

var (
	c13Once   sync.Once
	c13Loaded *vh.Loaded
	c13Err    error
)

func c13Base(s *vh.Session) (*vh.Loaded, error) {
	c13Once.Do(func() {
		dir := s.Scratch()
		if err := copyEmbed(c13base, "testdata/c13base", dir); err != nil {
			c13Err = err
			return
		}
		c13Loaded, c13Err = vh.Load(vh.GenOpts{Dir: dir, Patterns: []string{"./p"}})
	})
	return c13Loaded, c13Err
}

func convName(rc config.RawConverter) string {
	if rc.InterfaceName != "" {
		return rc.InterfaceName
	}
	return "vars"
}

func insertAt(lines []string, at int, add []string) []string {
	if at < 0 || at > len(lines) {
		at = len(lines)
	}
	out := append([]string{}, lines[:at]...)
	out = append(out, add...)
	return append(out, lines[at:]...)
}

// c13EvalDirective runs one directive case; it returns a violation message or "".
func c13EvalDirective(s *vh.Session, l *vh.Loaded, c dirCase) (string, string) {
	idx := -1
	for i, rc := range l.Raw {
		if convName(rc) == c.Converter {
			idx = i
		}
	}
	if idx < 0 {
		return "", "skip"
	}
	var global []string
	if c.Position == "global" {
		global = c.Lines
	}
	res := l.PerConverterOnly(idx, global, func(rc *config.RawConverter) {
		switch c.Position {
		case "converter":
			rc.Converter.Lines = insertAt(rc.Converter.Lines, c.At, c.Lines)
		case "method":
			m, ok := rc.Methods[c.Method]
			if !ok {
				return
			}
			m.Lines = insertAt(m.Lines, c.At, c.Lines)
			rc.Methods[c.Method] = m
		}
	})
	r := res[0]
	s.Eval(1)
	switch {
	case r.Panic != "":
		return "goverter panicked: " + vh.PanicSig(r.Panic), "panic"
	case r.Hang:
		return "goverter did not terminate within the guard", "hang"
	case r.Err != nil:
		if strings.TrimSpace(r.Err.Error()) == "" {
			return "goverter failed with an empty diagnostic", "empty"
		}
		named := diagNames(r.Err.Error(), l.Raw[idx], c.Position == "global")
		if named == "anonymous" && injectsText(c.Lines) {
			// user text that ends up verbatim in the emitted file (struct name, raw code, package
			// name, comment): the diagnostic shows the emitted source instead of a declaration
			named = "anonymous-injected-text"
		}
		s.Label("dir:diag:" + named)
		if named == "anonymous" {
			return "the diagnostic does not name the offending declaration (converter " + c.Converter + ", its file, or the command line): " + vh.FirstLines(r.Err.Error(), 4), "anonymous-diagnostic"
		}
		return "", r.Stage + "-error"
	}
	if len(r.Files) == 0 {
		return "goverter reported success but emitted nothing", "nofiles"
	}
	return "", "ok"
}

// diagNames classifies whether a diagnostic names the declaration it is about: the converter
// (interface name), the file that declares it, or the command line for -g settings.
func diagNames(msg string, rc config.RawConverter, global bool) string {
	switch {
	case rc.InterfaceName != "" && strings.Contains(msg, rc.InterfaceName):
		return "names-converter"
	case rc.FileName != "" && strings.Contains(msg, filepath.Base(rc.FileName)):
		return "names-file"
	case global && strings.Contains(msg, "command line"):
		return "names-command-line"
	}
	if os.Getenv("VERIF_DEBUG") != "" {
		fmt.Fprintf(os.Stderr, "ANON-DIAG conv=%q file=%q: %s\n", rc.InterfaceName, rc.FileName, msg)
	}
	return "anonymous"
}

var settingKeys = []string{
	"converter", "variables", "name", "output:raw", "output:file", "output:format", "output:package", "struct:comment",
	"enum:exclude", "extend", "map", "ignore", "update", "context", "enum:map", "enum:transform", "autoMap", "default",
	"wrapErrors", "wrapErrorsUsing", "ignoreUnexported", "update:ignoreZeroValueField", "update:ignoreZeroValueField:basic",
	"update:ignoreZeroValueField:struct", "update:ignoreZeroValueField:nillable", "default:update", "matchIgnoreCase",
	"ignoreMissing", "skipCopySameType", "useZeroValueOnPointerInconsistency", "useUnderlyingTypeMethods", "enum",
	"arg:context:regex", "enum:unknown",
}

var vocab = []string{
	"ID", "Name", "Nested", "Ptr", "List", "Dict", "Color", "Age", "Extra", "secret", "Next", "A", "B", "Full",
	"Nested.A", "Ptr.A", "Next.Next.ID", "Next.Nested.B", "List.A", "Dict.A", "Full.X",
	"NoArg", "NoArgString", "AgeToString", "AgeWithCtx", "ParseAge", "NewOut", "NewOutFrom", "Whole", "Generic", "InnerToInnerOut", "WithConv",
	"example.com/base/ext:IntToString", "example.com/base/ext:StringToInt", "example.com/base/ext:NewWrap", "../ext:IntToString", "./:Whole",
	"example.com/base/ext:.*", ".*", "Age.*", "ColorRed", "ColorGreen", "ShadeRed", "ShadeDark", "@error", "@panic", "@ignore",
	"yes", "no", "regex", "Color(\\w+) Shade$1", "struct", "function", "assign-variable", "source", "target", "ctx", "context",
	"./generated/generated.go", "@cwd/out/x.go", "../x.go", "/abs/x.go", "example.com/base/p/generated", "example.com/base/p:p", ":p",
	"func X() {}", "example.com/base/p:Color", "^ctx$",
}

var hostile = []string{
	"", " ", ".", "..", "...", "|", "||", ":", "::", "@", "@@", "*", "(", ")", "[", "]", "\\", "?", "+", "$", "^", "\t", "  ",
	"/", "//", "-", "_", "%s", "%!", "\"", "'", "`", "{", "}", ",", ";", "=", "é", "日本", "\x00", "A.", ".A", "A..B", ". .",
	"| F", "F |", "|F|", ":X", "X:", "@x", "0", "-1", "1e9",
}

func genToken(rt *rapid.T) string {
	switch rapid.IntRange(0, 9).Draw(rt, "tok-kind") {
	case 0, 1, 2, 3:
		return rapid.SampledFrom(vocab).Draw(rt, "vocab")
	case 4, 5:
		return rapid.SampledFrom(hostile).Draw(rt, "hostile")
	case 6:
		// mutated vocabulary entry
		v := rapid.SampledFrom(vocab).Draw(rt, "vocab-mut")
		h := rapid.SampledFrom(hostile).Draw(rt, "mut-ins")
		pos := rapid.IntRange(0, len(v)).Draw(rt, "mut-pos")
		return v[:pos] + h + v[pos:]
	case 7:
		// long dotted path
		n := rapid.IntRange(2, 60).Draw(rt, "path-len")
		parts := make([]string, n)
		for i := range parts {
			parts[i] = rapid.SampledFrom([]string{"Next", "Nested", "Ptr", "A", "ID", ""}).Draw(rt, "path-seg")
		}
		return strings.Join(parts, ".")
	case 8:
		return rapid.StringMatching(`[A-Za-z.:|@*()\[\]\\ ]{0,12}`).Draw(rt, "regexy")
	default:
		return rapid.String().Draw(rt, "any")
	}
}

var keyArity = map[string][]int{
	"map": {1, 2, 2, 2, 3}, "ignore": {1, 2, 3}, "autoMap": {1, 1, 1, 2}, "update": {1}, "context": {1}, "enum:map": {2, 2, 1, 3},
	"enum:transform": {1, 2, 3}, "default": {1}, "extend": {1, 2}, "name": {1}, "output:file": {1}, "output:package": {1},
	"output:format": {1}, "enum:exclude": {1}, "enum:unknown": {1}, "wrapErrorsUsing": {1}, "arg:context:regex": {1},
}

// weightedKeys favours the settings with the richest value grammar.
var weightedKeys = func() []string {
	out := append([]string{}, settingKeys...)
	for i := 0; i < 6; i++ {
		out = append(out, "map", "map", "ignore", "autoMap", "default", "extend", "enum:map", "update", "context")
	}
	return out
}()

var (
	vocabFields = []string{"ID", "Name", "Nested", "Ptr", "List", "Dict", "Color", "Age", "Extra", "secret", "Next", "A", "B", "Full"}
	vocabPaths  = []string{"Nested.A", "Ptr.A", "Next.Next.ID", "Next.Nested.B", "List.A", "Dict.A", "Full.X", "Nested", "Ptr", "Next", ".",
		"PStr.A", "PPtr.A", "PList.A", "Next.PStr.X", "Next.PPtr.A.B", "PStr", "PPtr"}
	vocabFuncs = []string{"NoArg", "NoArgString", "AgeToString", "AgeWithCtx", "ParseAge", "NewOut", "NewOutFrom", "Whole", "Generic", "InnerToInnerOut", "WithConv",
		"example.com/base/ext:IntToString", "example.com/base/ext:StringToInt", "example.com/base/ext:NewWrap", "../ext:IntToString", "./:Whole", "example.com/base/ext:.*", ".*", "Age.*"}
	vocabEnum = []string{"ColorRed", "ColorGreen", "ColorBlue", "ShadeRed", "ShadeGreen", "ShadeBlue", "ShadeDark", "@error", "@panic", "@ignore"}
)

func tokenFrom(rt *rapid.T, pool []string) string {
	switch rapid.IntRange(0, 9).Draw(rt, "stok") {
	case 0, 1, 2, 3, 4, 5:
		return rapid.SampledFrom(pool).Draw(rt, "pool")
	case 6:
		return rapid.SampledFrom(vocab).Draw(rt, "svocab")
	case 7, 8:
		return rapid.SampledFrom(hostile).Draw(rt, "shostile")
	default:
		v := rapid.SampledFrom(pool).Draw(rt, "pool-mut")
		h := rapid.SampledFrom(hostile).Draw(rt, "smut-ins")
		pos := rapid.SampledFrom([]int{0, len(v)}).Draw(rt, "smut-pos")
		return v[:pos] + h + v[pos:]
	}
}

// genStructuredLine keeps the documented shape of the key and draws the values from the
// matching vocabulary of the base program, mixed with hostile tokens.
func genStructuredLine(rt *rapid.T) string {
	key := rapid.SampledFrom(weightedKeys).Draw(rt, "skey")
	var parts []string
	switch key {
	case "map":
		switch rapid.IntRange(0, 2).Draw(rt, "map-form") {
		case 0:
			parts = []string{tokenFrom(rt, append(vocabFields, vocabPaths...)), tokenFrom(rt, vocabFields)}
		case 1:
			parts = []string{tokenFrom(rt, append(vocabFields, vocabPaths...)), tokenFrom(rt, vocabFields), "|", tokenFrom(rt, vocabFuncs)}
		default:
			parts = []string{tokenFrom(rt, vocabFields), "|", tokenFrom(rt, vocabFuncs)}
		}
	case "ignore":
		n := rapid.IntRange(1, 3).Draw(rt, "nignore")
		for i := 0; i < n; i++ {
			parts = append(parts, tokenFrom(rt, vocabFields))
		}
	case "autoMap":
		parts = []string{tokenFrom(rt, vocabPaths)}
	case "extend", "default":
		parts = []string{tokenFrom(rt, vocabFuncs)}
	case "enum:map":
		parts = []string{tokenFrom(rt, vocabEnum), tokenFrom(rt, vocabEnum)}
	case "enum:unknown":
		parts = []string{tokenFrom(rt, vocabEnum)}
	case "enum:transform":
		// NAME CONFIG...: the built-in transformer with zero to three words of configuration
		parts = []string{rapid.SampledFrom([]string{"regex", "regex", "regex", "nope"}).Draw(rt, "transformer")}
		n := rapid.IntRange(0, 3).Draw(rt, "transform-config-words")
		for i := 0; i < n; i++ {
			parts = append(parts, tokenFrom(rt, []string{"Color(\\w+)", "Shade$1", "Color", "Shade", ".*", "^Color(.*)$", "$1", "("}))
		}
	case "update", "context":
		parts = []string{tokenFrom(rt, []string{"source", "target", "ctx", "context"})}
	default:
		ar, ok := keyArity[key]
		n := 0
		if ok {
			n = rapid.SampledFrom(ar).Draw(rt, "arity")
		} else {
			n = rapid.SampledFrom([]int{0, 0, 1, 1, 2}).Draw(rt, "bool-arity")
		}
		for i := 0; i < n; i++ {
			parts = append(parts, tokenFrom(rt, vocab))
		}
	}
	line := key
	if len(parts) > 0 {
		line += " " + strings.Join(parts, " ")
	}
	return strings.NewReplacer("\n", " ", "\r", " ").Replace(line)
}

func genLine(rt *rapid.T) string {
	if rapid.IntRange(0, 9).Draw(rt, "line-kind") < 6 {
		return genStructuredLine(rt)
	}
	key := ""
	switch rapid.IntRange(0, 9).Draw(rt, "key-kind") {
	case 0:
		key = genToken(rt) // unknown or broken key
	case 1:
		k := rapid.SampledFrom(settingKeys).Draw(rt, "key")
		key = k + rapid.SampledFrom([]string{":", ":x", " ", "\t", "", ":basic"}).Draw(rt, "key-suffix")
	default:
		key = rapid.SampledFrom(settingKeys).Draw(rt, "key")
	}
	n := rapid.IntRange(0, 4).Draw(rt, "nargs")
	parts := []string{key}
	for i := 0; i < n; i++ {
		parts = append(parts, genToken(rt))
	}
	sep := rapid.SampledFrom([]string{" ", " ", " ", "  ", "\t", " | ", "|"}).Draw(rt, "sep")
	line := strings.Join(parts, sep)
	if strings.ContainsAny(line, "\n\r") {
		// a directive is one comment line
		line = strings.NewReplacer("\n", " ", "\r", " ").Replace(line)
	}
	return line
}

func genDirCase(rt *rapid.T, l *vh.Loaded) dirCase {
	rc := l.Raw[rapid.IntRange(0, len(l.Raw)-1).Draw(rt, "conv")]
	c := dirCase{Converter: convName(rc)}
	c.Position = rapid.SampledFrom([]string{"global", "converter", "method", "method"}).Draw(rt, "position")
	if c.Position == "method" {
		var names []string
		for n := range rc.Methods {
			names = append(names, n)
		}
		sort.Strings(names)
		c.Method = rapid.SampledFrom(names).Draw(rt, "method")
	}
	c.At = rapid.IntRange(0, 4).Draw(rt, "at")
	n := rapid.IntRange(1, 3).Draw(rt, "nlines")
	for i := 0; i < n; i++ {
		c.Lines = append(c.Lines, genLine(rt))
	}
	return c
}

// ---------------------------------------------------------------------------
// type grammar fuzzing

type typeCase struct {
	Prog     *spec.Program `json:"prog"`
	Patterns []string      `json:"patterns"`
}

var c13Flags = []string{
	"skipCopySameType", "useZeroValueOnPointerInconsistency", "ignoreMissing", "ignoreUnexported", "matchIgnoreCase",
	"enum no", "enum:unknown @ignore", "enum:unknown @panic", "enum:unknown @error", "useUnderlyingTypeMethods", "wrapErrors",
	"output:format function", "update:ignoreZeroValueField", "default:update",
}

func genTypeCase(rt *rapid.T, s *vh.Session, allowUnsafe bool) (typeCase, map[string]int) {
	g := gen.NewAny(rt)
	g.AllowUnsafe = allowUnsafe
	n := rapid.IntRange(4, 14).Draw(rt, "nconv")
	for i := 0; i < n; i++ {
		depth := rapid.IntRange(0, 3).Draw(rt, "depth")
		src := g.Type(depth)
		var dst *spec.T
		switch rapid.IntRange(0, 3).Draw(rt, "pair-mode") {
		case 0:
			dst = src
		case 1:
			dst = g.Type(rapid.IntRange(0, 3).Draw(rt, "depth2"))
		default:
			dst = g.Mutate(src)
		}
		conv := &spec.Converter{Name: fmt.Sprintf("C%d", i)}
		nf := rapid.IntRange(0, 3).Draw(rt, "nflags")
		for j := 0; j < nf; j++ {
			conv.Doc = append(conv.Doc, rapid.SampledFrom(c13Flags).Draw(rt, "flag"))
		}
		m := &spec.Method{Name: "Convert", Params: []spec.Param{{Name: "source", T: src}}, Results: []*spec.T{dst}}
		switch rapid.IntRange(0, 5).Draw(rt, "sig") {
		case 0:
			m.Results = append(m.Results, spec.Named("", "error"))
		case 1:
			if dst.K == spec.KPtr {
				m.Params = append(m.Params, spec.Param{Name: "target", T: dst})
				m.Results = nil
				m.Doc = append(m.Doc, "update target")
			}
		}
		if rapid.IntRange(0, 9).Draw(rt, "generic-iface") == 0 && !s.Open("F-GENERIC-IFACE") {
			g.Labels["generic-converter-interface"]++
			conv.Name = fmt.Sprintf("C%d[T any]", i)
			if rapid.Bool().Draw(rt, "generic-iface-uses-T") {
				tp := &spec.T{K: spec.KParam, Name: "T"}
				m.Params[0].T = spec.Generic("p", "Box", tp)
				if len(m.Results) > 0 {
					m.Results[0] = rapid.SampledFrom([]*spec.T{spec.Generic("p", "Box", tp), spec.Generic("p", "Chain", tp), tp}).Draw(rt, "generic-result")
				}
			}
		}
		conv.Methods = []*spec.Method{m}
		g.P.Converters = append(g.P.Converters, conv)
	}
	return typeCase{Prog: g.Prog, Patterns: []string{"./p"}}, g.Labels
}

// injectsText reports whether one of the lines carries user text into the emitted file verbatim.
func injectsText(lines []string) bool {
	for _, ln := range lines {
		f := strings.Fields(ln)
		if len(f) == 0 {
			continue
		}
		switch f[0] {
		case "name", "output:raw", "output:package", "struct:comment", "output:file":
			return true
		}
	}
	return false
}

func rawByName(l *vh.Loaded, name string) config.RawConverter {
	for _, rc := range l.Raw {
		if rc.InterfaceName == name || "vars:"+filepath.Base(rc.FileName) == name {
			return rc
		}
	}
	return config.RawConverter{}
}

func c13EvalTypes(s *vh.Session, c typeCase) (string, bool) {
	dir := s.Scratch()
	if err := vh.WriteTree(dir, c.Prog.Files()); err != nil {
		return "INFRA: " + err.Error(), false
	}
	l, err := vh.Load(vh.GenOpts{Dir: dir, Patterns: c.Patterns})
	if err != nil {
		// a marker on a generic interface may already fail while parsing docs: that is a diagnostic
		if strings.Contains(err.Error(), "could not load package") {
			return "INFRA: generated program does not compile: " + vh.FirstLines(err.Error(), 6), false
		}
		s.Eval(1)
		s.Label("types:load-error")
		return "", true
	}
	for _, r := range l.PerConverter(nil, nil) {
		s.Eval(1)
		switch {
		case r.Panic != "":
			return fmt.Sprintf("goverter panicked on converter %s: %s", r.Name, vh.PanicSig(r.Panic)), true
		case r.Hang:
			return "goverter did not terminate within the guard on converter " + r.Name, true
		case r.Err != nil && strings.TrimSpace(r.Err.Error()) == "":
			return "empty diagnostic on converter " + r.Name, true
		case r.Err != nil:
			s.Label("types:" + r.Stage + "-error")
			named := diagNames(r.Err.Error(), rawByName(l, r.Name), false)
			s.Label("types:diag:" + named)
			if named == "anonymous" {
				return fmt.Sprintf("the diagnostic for converter %s does not name it or its file: %s", r.Name, vh.FirstLines(r.Err.Error(), 4)), true
			}
		default:
			s.Label("types:ok")
		}
	}
	return "", true
}

func TestC13(t *testing.T) {
	s := vh.Begin(t, "C13")
	l, err := c13Base(s)
	if err != nil {
		s.Infra("base program: " + err.Error())
		t.Fatalf("INFRA: base program does not load: %v", err)
	}
	if s.ReplayIn != "" {
		c13Replay(t, s, l)
		return
	}
	s.ProbeFindings(t, func(f *vh.Finding, path string) { c13Replay(t, s, l) })
	baseLines := map[string]bool{}
	for _, rc := range l.Raw {
		for _, ln := range rc.Converter.Lines {
			baseLines[ln] = true
		}
		for _, m := range rc.Methods {
			for _, ln := range m.Lines {
				baseLines[ln] = true
			}
		}
	}
	t.Run("directives", func(t *testing.T) {
		rapid.Check(t, func(rt *rapid.T) {
			// several directive cases per rapid case: they are cheap (no package load)
			for k := 0; k < 100; k++ {
				c := genDirCase(rt, l)
				s.Journal(map[string]any{"tag": "dir", "case": c})
				msg, class := c13EvalDirective(s, l, c)
				s.Label("dir:" + class)
				novel := false
				for _, ln := range c.Lines {
					if !baseLines[ln] {
						novel = true
					}
				}
				if novel && class != "skip" {
					s.Nontrivial("dir:"+class+":"+c.Position+":"+strings.Join(c.Lines, "\n"), map[string]any{"position": c.Position, "converter": c.Converter, "method": c.Method, "lines": c.Lines, "outcome": class})
				}
				if msg != "" {
					if f := s.MatchKnown([]string{"directive"}, msg); f != nil {
						s.Known(f)
						s.Excluded(f.ID)
						continue
					}
					s.FailRapid(rt, "dir", c, "%s", msg)
				}
			}
		})
	})
	t.Run("types", func(t *testing.T) {
		rapid.Check(t, func(rt *rapid.T) {
			c, labels := genTypeCase(rt, s, !s.Open("F-BASIC-UNSAFEPTR"))
			s.Journal(map[string]any{"tag": "types", "case": c})
			msg, ok := c13EvalTypes(s, c)
			if !ok {
				s.Infra(msg)
				rt.Fatalf("%s", msg)
			}
			for k, v := range labels {
				s.LabelN("gen:"+k, v)
			}
			var sigs []string
			for _, cv := range c.Prog.Pkg("p").Converters {
				m := cv.Methods[0]
				sig := m.Params[0].T.Key_() + " -> "
				if len(m.Results) > 0 {
					sig += m.Results[0].Key_()
				} else {
					sig += "(update)"
				}
				sigs = append(sigs, sig+" "+strings.Join(cv.Doc, ","))
			}
			s.Nontrivial("types:"+strings.Join(sigs, ";"), sigs[:min(3, len(sigs))])
			if msg != "" {
				if f := s.MatchKnown([]string{"types"}, msg); f != nil {
					s.Known(f)
					s.Excluded(f.ID)
					return
				}
				s.FailRapid(rt, "types", c, "%s", msg)
			}
		})
	})
}

func c13Replay(t *testing.T, s *vh.Session, l *vh.Loaded) {
	switch s.ReplayTag() {
	case "dir":
		var c dirCase
		if err := s.LoadReplay(&c); err != nil {
			t.Fatalf("INFRA: %v", err)
		}
		if msg, _ := c13EvalDirective(s, l, c); msg != "" {
			s.FailT(t, "dir", c, msg)
		}
	case "types":
		var c typeCase
		if err := s.LoadReplay(&c); err != nil {
			t.Fatalf("INFRA: %v", err)
		}
		msg, ok := c13EvalTypes(s, c)
		if !ok {
			t.Fatalf("%s", msg)
		}
		if msg != "" {
			s.FailT(t, "types", c, msg)
		}
	default:
		t.Fatalf("INFRA: unknown replay tag %q", s.ReplayTag())
	}
}
