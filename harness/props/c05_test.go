package props

import (
	"fmt"
	"testing"

	"pgregory.net/rapid"

	"verif/harness/gen"
	"verif/harness/vh"
)

// TestC05: field settings select sources as documented and are never silently dropped.
func TestC05(t *testing.T) {
	s := vh.Begin(t, "C05")
	if s.ReplayIn != "" {
		if s.ReplayTag() == "prog" {
			c03ReplayRandom(t, s)
		} else {
			runCaseReplay(t, s)
		}
		return
	}
	s.ProbeFindings(t, func(f *vh.Finding, path string) {
		if s.ReplayTag() == "prog" {
			c03ReplayRandom(t, s)
		} else {
			runCaseReplay(t, s)
		}
	})
	values := s.Pick(60, 200)
	t.Run("runtime", func(t *testing.T) {
		rapid.Check(t, func(rt *rapid.T) {
			o := gen.Opts{
				MaxDepth:      rapid.IntRange(2, 4).Draw(rt, "maxdepth"),
				SamePkg:       rapid.IntRange(0, 2).Draw(rt, "samepkg") == 0,
				FieldSettings: true,
				Flags:         rapid.Bool().Draw(rt, "flags"),
				Arrays:        false,
				Unexported:    rapid.Bool().Draw(rt, "unexported"),
				Methods:       true,
				MaxFields:     5,
			}
			b := gen.New(rt, o)
			n := rapid.IntRange(1, 3).Draw(rt, "nmethods")
			for i := 0; i < n; i++ {
				b.StructMethod(fmt.Sprintf("M%d", i), o.MaxDepth)
			}
			b.Conv.Settings.EnumOff = true
			b.Finish()
			c := runCase{Conv: b.Conv, Mode: "value", Values: values, Seed: rapid.Uint64().Draw(rt, "drvseed"), Distinct: true}
			v := executeRunCase(s, c)
			mech := 0
			for l, k := range b.Labels {
				s.LabelN("gen:"+l, k)
				switch l {
				case "field:method-casefield", "field:rename", "field:recase", "field:nest", "field:automap", "field:dot", "field:method", "field:extra-ignore", "field:extra-missing", "field:recase-exact":
					mech++
				}
			}
			if mech >= 2 {
				s.Label("program:two-or-more-mechanisms")
			}
			handleRunVerdict(rt, s, c, v)
		})
	})
	t.Run("negative", func(t *testing.T) {
		rapid.Check(t, func(rt *rapid.T) {
			// several cheap generation-only cases per rapid case
			for k := 0; k < 6; k++ {
				o := gen.Opts{
					MaxDepth:      rapid.IntRange(1, 3).Draw(rt, "maxdepth"),
					SamePkg:       rapid.IntRange(0, 2).Draw(rt, "samepkg") == 0,
					FieldSettings: true,
					Defects:       rapid.IntRange(0, 1).Draw(rt, "defects"),
					DefectKinds:   []string{"missing", "unexported", "ambiguous-case", "unknown-field", "ambiguous-automap", "ambiguous-method", "overlap", "map-promoted"},
					Unexported:    true,
					Methods:       true,
					Custom:        rapid.Bool().Draw(rt, "custom"),
					MaxFields:     5,
				}
				b := gen.New(rt, o)
				b.StructMethod("M0", o.MaxDepth)
				b.Finish()
				c := progCase{Conv: b.Conv}
				msg, ok := c03CheckProgram(s, c)
				if !ok {
					s.Infra(msg)
					rt.Fatalf("%s", msg)
				}
				for l, n := range b.Labels {
					s.LabelN("neg:"+l, n)
				}
				s.Nontrivial("neg:"+progSummary(b.Conv)+fmt.Sprint(b.Labels), nil)
				if msg != "" {
					s.FailRapid(rt, "prog", c, "%s", msg)
				}
			}
		})
	})
}
