package gen

import (
	"fmt"
	"path"
	"sort"
	"strings"

	"pgregory.net/rapid"
)

// LConv is one converter of a layout tree.
type LConv struct {
	ID      string   `json:"id"`
	Dir     string   `json:"dir"`     // package directory below the module root
	PkgName string   `json:"pkgName"` // package name of the declaring package
	File    string   `json:"file"`    // declaring file (relative to the module root)
	Name    string   `json:"name"`    // interface name; "" for variables
	Vars    []string `json:"vars,omitempty"`
	OutFile string   `json:"outFile,omitempty"` // text of output:file ("" = default)
	OutPkg  string   `json:"outPkg,omitempty"`  // text of output:package ("" = absent)
	Format  string   `json:"format,omitempty"`  // "" | function
	Struct  string   `json:"struct,omitempty"`  // name setting ("" = default)
	Fault   string   `json:"fault,omitempty"`   // "" | directive | signature | conversion | unknown-field | enum-key
}

// Tree is a scratch module for CLI-level checks.
type Tree struct {
	Module   string            `json:"module"`
	Files    map[string]string `json:"files"` // relative path -> content (without go.mod)
	Convs    []LConv           `json:"convs"`
	Existing map[string]string `json:"existing,omitempty"` // output dir -> name of a package already living there
	Patterns []string          `json:"patterns,omitempty"` // package patterns for the CLI (default ./...)
}

// CLIPatterns are the package patterns to run goverter with.
func (t *Tree) CLIPatterns() []string {
	if len(t.Patterns) > 0 {
		return t.Patterns
	}
	return []string{"./..."}
}

// LayoutOpts steer the tree generator.
type LayoutOpts struct {
	MaxPkgs     int
	MaxConvs    int
	Faults      int  // number of faulty converters (0..)
	Layouts     bool // non-default output:file / output:package
	AbsRoot     string
	AllowCwd    bool // @cwd/ forms
	SharedFile  bool // may route several converters into one file
	Vars        bool
	SamePackage bool // may emit into the declaring package itself
	FaultKinds  []string
	// ExplicitPatterns: the run may name the input packages one by one instead of ./... ; only
	// then may an output directory hold hand-written code that uses the generated code (such a
	// package does not type-check while goverter runs, so it must not be selected itself)
	ExplicitPatterns bool
}

type layoutGen struct {
	rt  *rapid.T
	o   LayoutOpts
	t   *Tree
	n   int
	out map[string]string // output file (clean rel path) -> package path chosen
}

func (g *layoutGen) draw(n int, l string) int { return rapid.IntRange(0, n-1).Draw(g.rt, l) }
func (g *layoutGen) coin(l string) bool       { return rapid.Bool().Draw(g.rt, l) }

// Layout generates a tree.
func Layout(rt *rapid.T, o LayoutOpts) *Tree {
	if o.MaxPkgs == 0 {
		o.MaxPkgs = 3
	}
	if o.MaxConvs == 0 {
		o.MaxConvs = 5
	}
	g := &layoutGen{rt: rt, o: o, out: map[string]string{}}
	g.t = &Tree{Module: "example.com/lay", Files: map[string]string{}, Existing: map[string]string{}}
	npk := 1 + g.draw(o.MaxPkgs, "npkgs")
	nconv := 1 + g.draw(o.MaxConvs, "nconvs")
	if nconv < o.Faults+1 {
		nconv = o.Faults + 1
	}
	dirs := []string{"alpha", "beta/inner", "gamma"}[:npk]
	if g.draw(4, "dir-names") == 0 {
		// directory names whose walk order differs from the order of their import paths
		// ('-' sorts before '/'): api, api/v2, api-legacy
		dirs = []string{"api/v2", "api-legacy", "api"}[:npk]
	}
	// distribute converters
	perDir := map[string][]int{}
	for i := 0; i < nconv; i++ {
		d := dirs[g.draw(len(dirs), "conv-dir")]
		perDir[d] = append(perDir[d], i)
	}
	faulty := map[int]string{}
	kinds := []string{"directive", "signature", "conversion", "unknown-field", "enum-key"}
	if len(o.FaultKinds) > 0 {
		kinds = o.FaultKinds
	}
	for len(faulty) < o.Faults {
		faulty[g.draw(nconv, "fault-idx")] = kinds[g.draw(len(kinds), "fault-kind")]
	}
	for _, d := range dirs {
		idxs := perDir[d]
		pkgName := strings.ReplaceAll(path.Base(d), "-", "")
		var types strings.Builder
		fmt.Fprintf(&types, "package %s\n\ntype Nested struct {\n\tN int\n}\n\ntype NestedOut struct {\n\tN int\n}\n\ntype In struct {\n\tA int\n\tB string\n\tC []string\n\tN Nested\n}\n\ntype Out struct {\n\tA int\n\tB string\n\tC []string\n\tN NestedOut\n}\n\n", pkgName)
		fmt.Fprintf(&types, "type Color int\n\nconst (\n\tColorRed Color = iota\n\tColorBlue\n)\n\ntype Shade int\n\nconst (\n\tShadeRed Shade = iota\n\tShadeBlue\n)\n")
		g.t.Files[d+"/types.go"] = types.String()
		// split converters over one or two declaring files
		files := map[string]*strings.Builder{}
		// the second declaring file may carry more dots than the one before "go"
		second := []string{"more.go", "more.dto.go", "api.v2.go"}[g.draw(3, "second-file-name")]
		for _, i := range idxs {
			file := d + "/conv.go"
			if g.coin("second-file") {
				file = d + "/" + second
			}
			b := files[file]
			if b == nil {
				b = &strings.Builder{}
				fmt.Fprintf(b, "package %s\n\n", pkgName)
				files[file] = b
			}
			c := g.converter(i, d, pkgName, file, faulty[i])
			g.t.Convs = append(g.t.Convs, c)
			b.WriteString(renderLConv(c))
		}
		for f, b := range files {
			g.t.Files[f] = b.String()
		}
	}
	sort.Slice(g.t.Convs, func(i, j int) bool { return g.t.Convs[i].ID < g.t.Convs[j].ID })
	if o.Layouts {
		inputDirs := map[string]bool{}
		for _, c := range g.t.Convs {
			inputDirs[c.Dir] = true
		}
		explicit := o.ExplicitPatterns && g.coin("explicit-patterns")
		if explicit {
			for d := range inputDirs {
				g.t.Patterns = append(g.t.Patterns, "./"+d)
			}
			sort.Strings(g.t.Patterns)
		}
		for _, c := range g.t.Convs {
			d := c.OutDirRel(o.AbsRoot)
			if inputDirs[d] || g.t.Files[d+"/existing.go"] != "" || g.t.Files[d+"/excluded.go"] != "" {
				continue
			}
			if explicit && c.Name != "" && g.coin("existing-uses-generated") {
				// hand-written code next to the output that uses what goverter generates there
				ref := "&" + c.Name + "Impl{}"
				switch {
				case c.Format == "function":
					ref = "Convert" + strings.TrimPrefix(c.Name, "Conv")
				case c.Struct != "":
					ref = "&" + c.Struct + "{}"
				}
				name := fmt.Sprintf("oldname%d", g.draw(3, "oldname"))
				g.t.Files[d+"/existing.go"] = "package " + name + "\n\nvar Existing = " + ref + "\n"
				g.t.Existing[d] = name
				continue
			}
			if strings.HasPrefix(c.OutFile, "@cwd/") && c.OutPkg == "" && g.coin("existing-at-cwd-output") {
				// a package of another name at a location that depends on the working directory:
				// its name is only found if the location is resolved the same way everywhere
				name := fmt.Sprintf("oldname%d", g.draw(3, "oldname"))
				g.t.Files[d+"/existing.go"] = "package " + name + "\n\nvar Existing = 1\n"
				g.t.Existing[d] = name
				continue
			}
			switch g.draw(4, "existing-pkg") {
			case 0:
				name := fmt.Sprintf("oldname%d", g.draw(3, "oldname"))
				g.t.Files[d+"/existing.go"] = "package " + name + "\n\nvar Existing = 1\n"
				g.t.Existing[d] = name
			case 1:
				g.t.Files[d+"/excluded.go"] = "//go:build !goverter\n\npackage hidden\n"
			}
		}
	}
	return g.t
}

func (g *layoutGen) converter(i int, dir, pkgName, file, fault string) LConv {
	c := LConv{ID: fmt.Sprintf("c%02d", i), Dir: dir, PkgName: pkgName, File: file, Fault: fault}
	isVars := g.o.Vars && g.draw(4, "vars") == 0
	if isVars {
		c.Vars = []string{fmt.Sprintf("Conv%dA", i)}
		if g.coin("two-vars") {
			c.Vars = append(c.Vars, fmt.Sprintf("Conv%dB", i))
		}
	} else {
		c.Name = fmt.Sprintf("Conv%d", i)
		if g.draw(4, "function-format") == 0 {
			c.Format = "function"
		} else if g.draw(4, "named-struct") == 0 {
			c.Struct = fmt.Sprintf("Impl%d", i)
		}
	}
	if g.o.SamePackage && !isVars && g.coin("same-package") {
		// output next to the interface, in its own package
		c.OutFile = fmt.Sprintf("./zz_conv%d_gen.go", i)
		c.OutPkg = g.t.Module + "/" + dir
		if g.o.AllowCwd && g.coin("same-package-via-cwd") {
			// the same place, named from the working directory and with the package inferred
			c.OutFile = fmt.Sprintf("@cwd/%s/zz_cwd%d_gen.go", dir, i)
			c.OutPkg = ""
		}
		return c
	}
	if !g.o.Layouts {
		return c
	}
	depth := strings.Count(dir, "/") + 1
	up := strings.Repeat("../", depth)
	// output:file
	switch g.draw(7, "outfile-form") {
	case 0: // default
	case 1:
		c.OutFile = fmt.Sprintf("./Out-%d_x/gen.go", i)
	case 2:
		c.OutFile = fmt.Sprintf("sub/%ddeep/file.go", i)
	case 3:
		c.OutFile = fmt.Sprintf("%sshared/z%d.go", up, i)
	case 4:
		if g.o.AbsRoot != "" {
			c.OutFile = fmt.Sprintf("%s/abs%d/out.go", g.o.AbsRoot, i)
		}
	case 5:
		if g.o.AllowCwd {
			c.OutFile = fmt.Sprintf("@cwd/cw%d/out.go", i)
		}
	case 6:
		if g.o.SharedFile {
			// several converters may pick this one
			c.OutFile = up + "common/all.go"
		}
	}
	// output:package
	outRel := c.OutDirRel(g.o.AbsRoot)
	if shared, ok := g.out[outRel+"|"+path.Base(c.EffectiveOutFile())]; ok && g.draw(4, "shared-pkg-mismatch") != 0 {
		// another converter writes the same file: agree on the package
		c.OutPkg = shared
		return c
	}
	full := g.t.Module
	if outRel != "" && outRel != "." {
		full += "/" + outRel
	}
	form := g.draw(5, "outpkg-form")
	if c.Name == "" && c.OutFile != "" && form < 2 {
		// a variables block keeps the declaring package by default: moving the file needs a package
		form = 2
	}
	switch form {
	case 0, 1: // absent
	case 2:
		c.OutPkg = full
	case 3:
		c.OutPkg = full + ":" + fmt.Sprintf("custom%d", g.draw(2, "custom-name"))
	case 4:
		c.OutPkg = ":" + fmt.Sprintf("named%d", g.draw(2, "named-name"))
	}
	g.out[outRel+"|"+path.Base(c.EffectiveOutFile())] = c.OutPkg
	return c
}

// renderLConv renders the declaration; PATH in OutPkg is resolved by the caller through
// ResolveOutPkg before rendering (the tree stores resolved text).
func renderLConv(c LConv) string {
	switch c.Fault {
	case "syntax-above":
		// a helper that lost its closing brace: everything below parses as its body
		return fmt.Sprintf("func brokenHelper%s() {\n\tprintln(1)\n\n", c.ID) + renderLConvDecl(c)
	case "syntax-below":
		return renderLConvDecl(c) + fmt.Sprintf("func brokenTail%s() {\n\n", c.ID)
	case "type-error":
		return renderLConvDecl(c) + fmt.Sprintf("var _ = undefinedIdentifier%s\n\n", c.ID)
	}
	return renderLConvDecl(c)
}

func renderLConvDecl(c LConv) string {
	var b strings.Builder
	marker := "converter"
	if c.Name == "" {
		marker = "variables"
	}
	fmt.Fprintf(&b, "// goverter:%s\n", marker)
	if c.OutFile != "" {
		fmt.Fprintf(&b, "// goverter:output:file %s\n", c.OutFile)
	}
	if c.OutPkg != "" {
		fmt.Fprintf(&b, "// goverter:output:package %s\n", c.OutPkg)
	}
	if c.Format != "" {
		fmt.Fprintf(&b, "// goverter:output:format %s\n", c.Format)
	}
	if c.Struct != "" {
		fmt.Fprintf(&b, "// goverter:name %s\n", c.Struct)
	}
	if c.Fault == "directive" {
		b.WriteString("// goverter:bogusSetting yes\n")
	}
	if c.Fault == "render" {
		// user text that only fails when the output file is formatted
		b.WriteString("// goverter:output:raw func broken( {\n")
	}
	b.WriteString("// goverter:enum:unknown @ignore\n")
	methodDoc := ""
	in, out := "In", "Out"
	switch c.Fault {
	case "conversion":
		out = "Color"
	case "unknown-field":
		methodDoc = "\t// goverter:ignore Xa Xb Xc Xd\n"
	case "enum-key":
		in, out = "Color", "Shade"
		methodDoc = "\t// goverter:enum:map ColorRed ShadeRed\n\t// goverter:enum:map ColorBlue ShadeBlue\n\t// goverter:enum:map NopeA ShadeRed\n\t// goverter:enum:map NopeB ShadeRed\n\t// goverter:enum:map NopeC ShadeRed\n"
	}
	sig := fmt.Sprintf("(source %s) %s", in, out)
	if c.Fault == "signature" {
		sig = fmt.Sprintf("(source %s, other %s) %s", in, in, out)
	}
	if c.Name != "" {
		fmt.Fprintf(&b, "type %s interface {\n%s\tConvert%s%s\n}\n\n", c.Name, methodDoc, strings.TrimPrefix(c.Name, "Conv"), sig)
		return b.String()
	}
	b.WriteString("var (\n")
	for i, v := range c.Vars {
		vsig := sig
		if i > 0 {
			// a second variable needs another signature
			vsig = "(source Out) In"
		}
		fmt.Fprintf(&b, "%s\t%s func%s\n", methodDoc, v, vsig)
	}
	b.WriteString(")\n\n")
	return b.String()
}

// Rerender rebuilds the declaring files from the converter list (after edits).
func (t *Tree) Rerender() {
	byFile := map[string][]LConv{}
	for _, c := range t.Convs {
		byFile[c.File] = append(byFile[c.File], c)
	}
	for f, cs := range byFile {
		var b strings.Builder
		fmt.Fprintf(&b, "package %s\n\n", cs[0].PkgName)
		for _, c := range cs {
			b.WriteString(renderLConv(c))
		}
		t.Files[f] = b.String()
	}
}

// EffectiveOutFile is the output:file in effect (default applied).
func (c LConv) EffectiveOutFile() string {
	if c.OutFile != "" {
		return c.OutFile
	}
	if c.Name != "" {
		return "./generated/generated.go"
	}
	base := path.Base(c.File)
	return strings.TrimSuffix(base, ".go") + ".gen.go"
}

// OutDirRel is the output directory relative to the module root, assuming the working
// directory is the module root (absRoot is the absolute path of the module root).
func (c LConv) OutDirRel(absRoot string) string {
	f := c.EffectiveOutFile()
	switch {
	case strings.HasPrefix(f, "@cwd/"):
		return path.Dir(path.Clean(strings.TrimPrefix(f, "@cwd/")))
	case path.IsAbs(f):
		rel := strings.TrimPrefix(path.Clean(f), path.Clean(absRoot)+"/")
		return path.Dir(rel)
	}
	return path.Dir(path.Join(path.Dir(c.File), f))
}

// OutPathRel is the output file relative to the module root.
func (c LConv) OutPathRel(absRoot string) string {
	return path.Join(c.OutDirRel(absRoot), path.Base(c.EffectiveOutFile()))
}
