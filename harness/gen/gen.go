// Package gen holds the rapid generators that build input programs (spec.Program)
// together with the model-side description of their converters (model.Conv).
package gen

import (
	"fmt"
	"strings"

	"pgregory.net/rapid"

	"verif/harness/model"
	"verif/harness/spec"
)

// Opts steer the program generator.
type Opts struct {
	MaxDepth      int
	SamePkg       bool // all types, the converter and the output live in one package
	FieldSettings bool // rename / re-case / nest / extra fields with map, autoMap, ignore, ...
	Defects       int  // number of deliberately unconvertible positions to inject
	Flags         bool // may use *T -> T (requests useZeroValueOnPointerInconsistency)
	SkipCopy      bool // may turn on skipCopySameType and generate identical types
	Enums         bool // may generate enum pairs
	Arrays        bool // array sources
	ArraysAssign  bool // allow array sources at assign positions (struct field, element)
	Exotic        bool // interface / func / chan leaves (only convertible with skipCopySameType)
	Unexported    bool // unexported fields
	Methods       bool // source methods / func-typed fields as field sources
	MaxFields     int
	NoSharedAddr  bool // stay out of F-SKIPCOPY-INTERIOR-PTR
	DefectKinds   []string
	Custom        bool   // extend functions and map ... | FUNC
	Fallible      bool   // custom functions may return errors (every declared method then returns error)
	Contexts      int    // maximal number of context parameters
	ConvArg       bool   // custom functions may take the converter as first argument
	UseUnderlying bool   // may use useUnderlyingTypeMethods
	CompositeKeys bool   // map keys may be pointers or structs holding pointers
	DropContext   bool   // one declared method may lack a context parameter
	TargetsInConv bool   // target types live in the converter package, which is also the output package
	SourcesInConv bool   // source types live in the converter package, output goes elsewhere
	Format        string // "" (struct) | function | variable
	PkgNames      bool   // unusual package names / paths for the type packages
	LocalNamePkgs bool   // ... including names goverter uses for its own local identifiers
	PtrHeavy      bool   // favour pointer shapes incl. double pointers on either side
	AlwaysErr     bool   // every declared method returns error
	ErrMismatch   bool   // inject one fallible function although no method returns error
	FallibleRate  int    // percent of custom functions that can fail (default 50)
}

// Builder accumulates one program.
type Builder struct {
	rt   *rapid.T
	O    Opts
	Prog *spec.Program
	A    *spec.Package // source types
	B    *spec.Package // target types
	C    *spec.Package // converter package
	Conv *model.Conv
	SC   *spec.Converter

	n               int
	defects         int
	stack           []openPair
	curTD           *spec.TypeDecl // target type declaration whose fields are being generated
	ctxDropped      bool
	convZeroDecided bool            // converter-level update:ignoreZeroValueField categories are fixed
	words           map[string]bool // word type names in use
	pairs           []namedPair
	Labels          map[string]int
	topLevel        bool
	defectKind      string

	Ctx       []CtxParam
	ctxRegex  bool
	Funcs     []string // names of the custom functions (driver registry)
	extPairs  []namedPair
	fnN       int
	AllErr    bool
	extendDoc []string

	errMismatchDone bool
	aImportsMark    bool

	comparableOnly      bool // only comparable types (F-ZERO-NONCOMPARABLE)
	noNillable          bool // no pointer / slice / map members (F-UPDATE-NESTED-STALE)
	inUpdate            bool
	NoUnnamedUnexported bool
	OpenNonComparable   bool
	OpenNestedStale     bool
	OpenPtrSrcWhole     bool // F-UPDATE-PTRSRC-WHOLE
	noDot               bool
	genericDeclared     bool
	ptrBoost            bool // favour pointer shapes (default methods: nested pointer builds)
	OpenNilPtrSub       bool // F-UPDATE-NILLABLE-CALL
	noPtrToNamed        bool

	GlobalOnly []string // setting lines given on the command line instead of the converter
	// ForceZeroBits: update:ignoreZeroValueField categories every update / default method gets (1 basic, 2 struct, 4 nillable)
	ForceZeroBits int

	enumNeedErr bool
	enumMethods []*model.Method
	enumPairs   []namedPair
}

// CtxParam is one context parameter every declared method carries.
type CtxParam struct {
	Name string
	T    *spec.T
}

type openPair struct{ s, t *spec.T }
type namedPair struct{ s, t *spec.T }

// New creates a builder with an empty converter.
func New(rt *rapid.T, o Opts) *Builder {
	if o.MaxFields == 0 {
		o.MaxFields = 4
	}
	b := &Builder{rt: rt, O: o, Labels: map[string]int{}, defects: o.Defects}
	if o.Defects > 0 {
		kinds := []string{"kind", "shape", "enum", "exotic", "missing", "unexported", "ambiguous-case", "unknown-field", "ambiguous-automap", "ambiguous-method", "overlap", "map-promoted"}
		if len(o.DefectKinds) > 0 {
			kinds = o.DefectKinds
		}
		b.defectKind = kinds[rapid.IntRange(0, len(kinds)-1).Draw(rt, "defect-kind")]
		if b.fieldDefect() {
			b.O.FieldSettings = true
		}
	}
	b.Prog = &spec.Program{Module: "example.com/m"}
	if o.SamePkg {
		p := &spec.Package{Key: "conv", Path: "conv", Name: "conv"}
		b.A, b.B, b.C = p, p, p
		b.Prog.Pkgs = []*spec.Package{p}
	} else if o.SourcesInConv {
		b.B = &spec.Package{Key: "b", Path: "b", Name: "b"}
		b.C = &spec.Package{Key: "conv", Path: "conv", Name: "conv"}
		b.A = b.C
		b.Prog.Pkgs = []*spec.Package{b.B, b.C}
	} else if o.TargetsInConv {
		b.A = &spec.Package{Key: "a", Path: "a", Name: "a"}
		b.C = &spec.Package{Key: "conv", Path: "conv", Name: "conv"}
		b.B = b.C
		b.Prog.Pkgs = []*spec.Package{b.A, b.C}
	} else {
		b.A = &spec.Package{Key: "a", Path: "a", Name: "a"}
		b.B = &spec.Package{Key: "b", Path: "b", Name: "b"}
		b.C = &spec.Package{Key: "conv", Path: "conv", Name: "conv"}
		b.Prog.Pkgs = []*spec.Package{b.A, b.B, b.C}
	}
	if o.PkgNames && !o.SamePkg && !o.TargetsInConv && !o.SourcesInConv {
		names := []struct{ path, name string }{{"fmt", "fmt"}, {"model/v1", "model"}, {"generated", "generated"}, {"errors", "errors"}, {"api-types", "apitypes"}, {"x/strings", "strings"}, {"b2", "b2"}}
		if o.LocalNamePkgs {
			for _, n := range []string{"source", "c", "i", "key", "value", "target", "context", "err"} {
				names = append(names, struct{ path, name string }{n, n})
			}
		}
		pa := names[rapid.IntRange(0, len(names)-1).Draw(rt, "pkg-a")]
		pb := names[rapid.IntRange(0, len(names)-1).Draw(rt, "pkg-b")]
		if pa.path != pb.path {
			b.A.Path, b.A.Name = pa.path, pa.name
			b.B.Path, b.B.Name = pb.path, pb.name
		}
	}
	b.SC = &spec.Converter{Name: "Converter"}
	b.C.Converters = []*spec.Converter{b.SC}
	b.Conv = &model.Conv{Prog: b.Prog, ConvPkg: "conv", OutPkg: "conv/generated"}
	switch o.Format {
	case "function":
		b.SC.Doc = append(b.SC.Doc, "output:format function")
	case "variable":
		b.SC.Vars = true
		b.Conv.OutPkg = "conv"
	}
	if o.SkipCopy {
		b.Conv.Settings.SkipCopy = true
	}
	if o.Custom {
		b.AllErr = o.AlwaysErr || (o.Fallible && b.coin("all-methods-return-error"))
		if o.ErrMismatch {
			b.AllErr = false
		}
		nctx := 0
		if o.Contexts > 0 {
			nctx = b.draw(o.Contexts+1, "nctx")
		}
		b.ctxRegex = nctx > 0 && b.coin("ctx-by-regex")
		shapes := []string{"ptr", "value", "basic"}
		for i := 0; i < nctx; i++ {
			name := fmt.Sprintf("Ctx%c", 'A'+i)
			var ct *spec.T
			switch shapes[(i+b.draw(3, "ctx-shape"))%3] {
			case "ptr":
				b.C.Types = append(b.C.Types, &spec.TypeDecl{Name: name, U: spec.Struct(spec.F("V", spec.Basic("int")), spec.F("S", spec.Basic("string")))})
				ct = spec.Ptr(spec.Named(b.C.Key, name))
			case "value":
				b.C.Types = append(b.C.Types, &spec.TypeDecl{Name: name, U: spec.Struct(spec.F("V", spec.Basic("int")))})
				ct = spec.Named(b.C.Key, name)
			default:
				b.C.Types = append(b.C.Types, &spec.TypeDecl{Name: name, U: spec.Basic("string")})
				ct = spec.Named(b.C.Key, name)
			}
			b.Ctx = append(b.Ctx, CtxParam{Name: fmt.Sprintf("ctx%c", 'A'+i), T: ct})
		}
	}
	if o.SamePkg || o.TargetsInConv {
		b.Conv.OutPkg = "conv"
		if o.Format != "variable" {
			b.SC.Doc = append(b.SC.Doc, "output:file ./generated.go", "output:package example.com/m/conv")
		}
	}
	return b
}

func (b *Builder) label(l string) { b.Labels[l]++ }

func (b *Builder) id() int { b.n++; return b.n }

func (b *Builder) draw(n int, label string) int {
	return rapid.IntRange(0, n-1).Draw(b.rt, label)
}

func (b *Builder) coin(label string) bool { return rapid.Bool().Draw(b.rt, label) }

// chance returns true with probability about pct percent.
func (b *Builder) chance(pct int, label string) bool {
	return rapid.IntRange(0, 99).Draw(b.rt, label) < pct
}

var basicKinds = []string{"int", "string", "bool", "int64", "float64", "uint8", "int32", "uint", "float32", "uint16", "complex128", "byte", "rune"}

var keyKinds = []string{"int", "string", "int64", "uint8", "bool"}

var fieldPool = []string{"Name", "ID", "Value", "Count", "Items", "Next", "Data", "Key", "Info", "Tags", "Size", "Owner"}
var unexportedPool = []string{"name", "id", "secret", "count", "_id", "_rev"}

// leafBasic returns a pair of basic (possibly named) types of one kind.
func (b *Builder) leafBasic() (*spec.T, *spec.T) {
	k := basicKinds[b.draw(len(basicKinds), "kind")]
	s, t := spec.Basic(k), spec.Basic(k)
	// identical kinds that are spelled differently (byte/uint8, rune/int32)
	if alt, ok := map[string]string{"byte": "uint8", "uint8": "byte", "rune": "int32", "int32": "rune"}[k]; ok && b.coin("alias-kind") {
		t = spec.Basic(alt)
		b.label("leaf:alias-spelling")
	}
	if b.want("kind") && b.chance(30, "defect-kind") {
		b.defects--
		k2 := basicKinds[(indexOf(basicKinds, k)+1+b.draw(len(basicKinds)-1, "kind2"))%len(basicKinds)]
		if basicKindOf(k2) != basicKindOf(k) {
			b.label("defect:basic-kind")
			t = spec.Basic(k2)
		}
	}
	if b.chance(20, "named-src") {
		s = b.namedBasic(b.A, "N", s)
	}
	if b.chance(20, "named-dst") {
		t = b.namedBasic(b.B, "M", t)
	}
	return s, t
}

func basicKindOf(k string) string {
	switch k {
	case "byte":
		return "uint8"
	case "rune":
		return "int32"
	}
	return k
}

func indexOf(l []string, s string) int {
	for i, x := range l {
		if x == s {
			return i
		}
	}
	return 0
}

func (b *Builder) namedBasic(p *spec.Package, prefix string, u *spec.T) *spec.T {
	name := fmt.Sprintf("%s%s%d", prefix, strings.Title(strings.ReplaceAll(u.Name, ".", "")), b.id())
	p.Types = append(p.Types, &spec.TypeDecl{Name: name, U: u})
	return spec.Named(p.Key, name)
}

// Pair builds a source and a target type.
func (b *Builder) Pair(depth int) (*spec.T, *spec.T) {
	top := b.topLevel
	b.topLevel = false
	type choice struct {
		name string
		w    int
	}
	choices := []choice{{"basic", 30}}
	if depth > 0 {
		choices[0].w = 14
		choices = append(choices,
			choice{"ptr", 12}, choice{"tptr", 8}, choice{"slice", 12}, choice{"map", 8},
			choice{"struct", 22}, choice{"ustruct", 6}, choice{"nmap", 4}, choice{"nslice", 4}, choice{"generic", 4}, choice{"bytes", 4}, choice{"ucontainer", 5})
		if b.O.Flags {
			choices = append(choices, choice{"sptr", 6})
		}
		if b.O.Arrays && (top || b.O.ArraysAssign) {
			choices = append(choices, choice{"array", 4})
		}
		if len(b.stack) > 0 {
			choices = append(choices, choice{"recur", 8})
		}
		if len(b.pairs) > 0 {
			choices = append(choices, choice{"reuse", 6})
		}
		if b.fieldDefect() || b.want("missing") || b.want("unexported") {
			choices = append(choices, choice{"struct", 40})
		}
		if b.want("shape") {
			choices = append(choices, choice{"defect-shape", 25})
		}
	}
	if (b.O.PtrHeavy || b.ptrBoost) && depth > 0 {
		choices = append(choices, choice{"ptr", 15}, choice{"tptr", 15}, choice{"sptr", 15}, choice{"pptr", 10}, choice{"tpptr", 8}, choice{"spptr", 8})
	}
	if b.O.Enums {
		choices = append(choices, choice{"enum", 8})
	}
	if b.O.SkipCopy {
		choices = append(choices, choice{"same", 8})
	}
	if b.O.Exotic {
		choices = append(choices, choice{"exotic", 5})
	}
	if b.inUpdate && depth > 0 && !b.comparableOnly && !b.noNillable {
		// zero guards over nillable members: more maps, named and unnamed
		choices = append(choices, choice{"nmap", 8}, choice{"map", 6})
	}
	if b.O.Fallible && depth > 0 {
		// error locations are made of fields, indices and keys: more containers above the functions
		choices = append(choices, choice{"map", 10}, choice{"slice", 8}, choice{"extend", 10})
	}
	if b.O.Custom {
		choices = append(choices, choice{"extend", 10})
		if len(b.extPairs) > 0 {
			choices = append(choices, choice{"extend-reuse", 8})
		}
		if b.O.UseUnderlying {
			choices = append(choices, choice{"under", 4})
			if b.O.DropContext {
				// the leg about unavailable contexts: functions found through underlying types
				// are the rarer way to need one
				choices = append(choices, choice{"under", 14})
			}
		}
	}
	if b.comparableOnly || b.noNillable {
		var keep []choice
		for _, c := range choices {
			switch c.name {
			case "basic", "struct", "ustruct":
				keep = append(keep, c)
			case "exotic":
				// interfaces and channels are comparable: fine under :struct zero guards
				if b.comparableOnly && !b.noNillable && b.Conv.Settings.SkipCopy {
					keep = append(keep, c)
				}
			case "ptr", "tptr":
				if !b.noNillable {
					keep = append(keep, c)
				}
			}
		}
		choices = keep
	}
	total := 0
	for _, c := range choices {
		total += c.w
	}
	x := b.draw(total, "shape")
	pick := ""
	for _, c := range choices {
		if x < c.w {
			pick = c.name
			break
		}
		x -= c.w
	}
	b.label("shape:" + pick)
	switch pick {
	case "basic":
		return b.leafBasic()
	case "ptr":
		b.topLevel = true // pointees are built, not assigned: arrays are fine there
		s, t := b.Pair(depth - 1)
		if b.noPtrToNamed && s.K == spec.KNamed {
			b.label("excluded:F-UPDATE-NILLABLE-CALL")
			return spec.Slice(s), spec.Slice(t)
		}
		return spec.Ptr(s), spec.Ptr(t)
	case "tptr":
		b.topLevel = true
		s, t := b.Pair(depth - 1)
		if b.noPtrToNamed && nillable(s) {
			// value -> pointer of a nillable source is assigned unconditionally
			b.label("excluded:F-UPDATE-NILLABLE-CALL")
			return s, t
		}
		if b.Conv.Settings.SkipCopy && b.O.NoSharedAddr && s.Key_() == t.Key_() && s.K != spec.KBasic && s.K != spec.KNamed {
			// T -> *T of identical non-basic types under skipCopySameType takes the address
			// of the source expression (known finding F-SKIPCOPY-INTERIOR-PTR)
			b.label("excluded:F-SKIPCOPY-INTERIOR-PTR")
			return spec.Ptr(s), spec.Ptr(t)
		}
		return s, spec.Ptr(t)
	case "sptr":
		b.topLevel = true
		s, t := b.Pair(depth - 1)
		if t.K == spec.KPtr {
			return spec.Ptr(s), t
		}
		b.Conv.Settings.ZeroPtr = true
		return spec.Ptr(s), t
	case "pptr":
		b.topLevel = true
		s, t := b.Pair(depth - 1)
		return spec.Ptr(spec.Ptr(s)), spec.Ptr(spec.Ptr(t))
	case "tpptr":
		b.topLevel = true
		s, t := b.Pair(depth - 1)
		return s, spec.Ptr(spec.Ptr(t))
	case "spptr":
		b.topLevel = true
		s, t := b.Pair(depth - 1)
		b.Conv.Settings.ZeroPtr = true
		if b.coin("spptr-to-ptr") {
			return spec.Ptr(spec.Ptr(s)), spec.Ptr(t)
		}
		return spec.Ptr(spec.Ptr(s)), t
	case "slice":
		s, t := b.pairAssign(depth - 1)
		return spec.Slice(s), spec.Slice(t)
	case "ucontainer":
		// an unnamed struct as element / pointee: goverter has to spell the struct type (make, var),
		// with its tags and embedded fields
		if b.inUpdate && b.OpenNestedStale || b.comparableOnly || b.noNillable {
			return b.leafBasic()
		}
		fs, ft := b.fields(depth-1, nil, nil)
		su, tu := spec.Struct(fs...), spec.Struct(ft...)
		switch b.draw(3, "ucontainer-kind") {
		case 0:
			return spec.Slice(su), spec.Slice(tu)
		case 1:
			ks, kt := b.keyPair()
			return spec.Map(ks, su), spec.Map(kt, tu)
		default:
			return spec.Ptr(su), spec.Ptr(tu)
		}
	case "bytes":
		// byte slices: the shape "optimised" copies are written for
		spell := func() *spec.T { return spec.Basic([]string{"byte", "uint8"}[b.draw(2, "byte-spelling")]) }
		s, t := spec.Slice(spell()), spec.Slice(spell())
		if !b.noPtrToNamed && b.chance(25, "named-bytes-src") {
			sd := &spec.TypeDecl{Name: fmt.Sprintf("NB%d", b.id()), U: s}
			b.A.Types = append(b.A.Types, sd)
			s = spec.Named(b.A.Key, sd.Name)
		}
		if !b.noPtrToNamed && b.chance(25, "named-bytes-dst") {
			td := &spec.TypeDecl{Name: fmt.Sprintf("MB%d", b.id()), U: t}
			b.B.Types = append(b.B.Types, td)
			t = spec.Named(b.B.Key, td.Name)
		}
		return s, t
	case "array":
		s, t := b.pairAssign(depth - 1)
		return spec.Array(1+b.draw(3, "alen"), s), spec.Slice(t)
	case "map":
		ks, kt := b.keyPair()
		b.topLevel = true // map values are built into a temporary first
		vs, vt := b.pairAssign(depth - 1)
		return spec.Map(ks, vs), spec.Map(kt, vt)
	case "generic":
		// instantiations of a generic struct declared once per side
		if !b.genericDeclared {
			b.genericDeclared = true
			tp := &spec.T{K: spec.KParam, Name: "T"}
			u := spec.Struct(spec.F("V", tp), spec.F("L", spec.Slice(tp)), spec.F("P", spec.Ptr(tp)))
			b.A.Types = append(b.A.Types, &spec.TypeDecl{Name: "GBoxS", Params: []string{"T"}, U: u})
			b.B.Types = append(b.B.Types, &spec.TypeDecl{Name: "GBoxT", Params: []string{"T"}, U: u})
		}
		es, et := b.pairAssign(depth - 1)
		return spec.Generic(b.A.Key, "GBoxS", es), spec.Generic(b.B.Key, "GBoxT", et)
	case "nmap", "nslice":
		// named container types: converted by generated methods of their own
		var su, tu *spec.T
		if pick == "nmap" {
			ks, kt := b.keyPair()
			b.topLevel = true
			vs, vt := b.pairAssign(depth - 1)
			su, tu = spec.Map(ks, vs), spec.Map(kt, vt)
		} else {
			if b.noPtrToNamed {
				// a nil named slice is overwritten through its sub-method (F-UPDATE-NILLABLE-CALL)
				b.label("excluded:F-UPDATE-NILLABLE-CALL")
				return b.leafBasic()
			}
			es, et := b.pairAssign(depth - 1)
			su, tu = spec.Slice(es), spec.Slice(et)
		}
		id := b.id()
		sn, tn := fmt.Sprintf("NC%d", id), fmt.Sprintf("MC%d", id)
		b.A.Types = append(b.A.Types, &spec.TypeDecl{Name: sn, U: su})
		b.B.Types = append(b.B.Types, &spec.TypeDecl{Name: tn, U: tu})
		return spec.Named(b.A.Key, sn), spec.Named(b.B.Key, tn)
	case "struct":
		return b.namedStruct(depth)
	case "ustruct":
		saved := b.noNillable
		if b.inUpdate && b.OpenNestedStale {
			// unnamed structs are assigned member-wise in update mode: keep them free of
			// nillable members while F-UPDATE-NESTED-STALE is open
			b.noNillable = true
			b.label("excluded:F-UPDATE-NESTED-STALE")
		}
		fs, ft := b.fields(depth, nil, nil)
		b.noNillable = saved
		return spec.Struct(fs...), spec.Struct(ft...)
	case "recur":
		op := b.stack[b.draw(len(b.stack), "recur-idx")]
		via := b.draw(3, "recur-via")
		if via == 0 && b.noPtrToNamed {
			b.label("excluded:F-UPDATE-NILLABLE-CALL")
			via = 1
		}
		switch via {
		case 0:
			return spec.Ptr(op.s), spec.Ptr(op.t)
		case 1:
			return spec.Slice(op.s), spec.Slice(op.t)
		default:
			return spec.Map(spec.Basic("string"), op.s), spec.Map(spec.Basic("string"), op.t)
		}
	case "reuse":
		np := b.pairs[b.draw(len(b.pairs), "reuse-idx")]
		// by-value reuse of a pair that is still open would be an invalid recursive type
		for _, op := range b.stack {
			if op.s.Key_() == np.s.Key_() {
				if b.noPtrToNamed {
					return spec.Slice(np.s), spec.Slice(np.t)
				}
				return spec.Ptr(np.s), spec.Ptr(np.t)
			}
		}
		return np.s, np.t
	case "enum":
		return b.enumPair()
	case "extend":
		s, t := b.extendPair(depth)
		if b.noPtrToNamed && nillable(s) {
			b.label("excluded:F-UPDATE-NILLABLE-CALL")
		}
		return s, t
	case "extend-reuse":
		np := b.extPairs[b.draw(len(b.extPairs), "extend-reuse-idx")]
		if b.noPtrToNamed && nillable(np.s) {
			b.label("excluded:F-UPDATE-NILLABLE-CALL")
			return b.leafBasic()
		}
		return np.s, np.t
	case "under":
		return b.underPair()
	case "same":
		b.Conv.Settings.SkipCopy = true
		return b.sameType(depth)
	case "exotic":
		return b.exotic()
	case "defect-shape":
		b.defects--
		s, t := b.Pair(depth - 1)
		switch b.draw(4, "defect-shape-kind") {
		case 0:
			b.label("defect:slice-to-array")
			return spec.Slice(s), spec.Array(2, t)
		case 1:
			b.label("defect:struct-to-map")
			return spec.Struct(spec.F("K", s)), spec.Map(spec.Basic("string"), t)
		case 2:
			b.label("defect:ptr-to-value")
			if b.Conv.Settings.ZeroPtr {
				return spec.Slice(s), spec.Map(spec.Basic("int"), t)
			}
			return spec.Ptr(s), t
		default:
			b.label("defect:slice-to-value")
			return spec.Slice(s), t
		}
	}
	return b.leafBasic()
}

// pairAssign builds a pair for an assign position (slice element, map value, struct field).
func (b *Builder) pairAssign(depth int) (*spec.T, *spec.T) {
	return b.Pair(depth)
}

func (b *Builder) keyPair() (*spec.T, *spec.T) {
	if b.O.CompositeKeys && b.chance(35, "composite-key") {
		return b.compositeKey()
	}
	k := keyKinds[b.draw(len(keyKinds), "keykind")]
	s, t := spec.Basic(k), spec.Basic(k)
	if b.chance(25, "named-key-src") {
		s = b.namedBasic(b.A, "K", s)
	}
	if b.chance(25, "named-key-dst") {
		t = b.namedBasic(b.B, "L", t)
	}
	return s, t
}

// compositeKey builds comparable map keys that are not basic: pointers and structs (unnamed,
// named per side, or one named type on both sides) whose fields are basics or pointers to basics.
func (b *Builder) compositeKey() (*spec.T, *spec.T) {
	leaf := func() (*spec.T, *spec.T) {
		s, t := b.leafBasic()
		if b.coin("key-leaf-ptr") {
			return spec.Ptr(s), spec.Ptr(t)
		}
		return s, t
	}
	keyFields := func(same bool) ([]spec.Field, []spec.Field) {
		var fs, ft []spec.Field
		n := 1 + b.draw(3, "key-nfields")
		for i := 0; i < n; i++ {
			s, t := leaf()
			if same {
				t = s
			}
			nm := fmt.Sprintf("K%d", i)
			fs, ft = append(fs, spec.F(nm, s)), append(ft, spec.F(nm, t))
		}
		return fs, ft
	}
	switch b.draw(4, "composite-key-kind") {
	case 0:
		b.label("key:pointer")
		s, t := b.leafBasic()
		return spec.Ptr(s), spec.Ptr(t)
	case 1:
		b.label("key:unnamed-struct")
		fs, ft := keyFields(false)
		return spec.Struct(fs...), spec.Struct(ft...)
	case 2:
		b.label("key:named-struct")
		fs, ft := keyFields(false)
		id := b.id()
		sn, tn := fmt.Sprintf("KS%d", id), fmt.Sprintf("KT%d", id)
		b.A.Types = append(b.A.Types, &spec.TypeDecl{Name: sn, U: spec.Struct(fs...)})
		b.B.Types = append(b.B.Types, &spec.TypeDecl{Name: tn, U: spec.Struct(ft...)})
		return spec.Named(b.A.Key, sn), spec.Named(b.B.Key, tn)
	default:
		// one type on both sides: without skipCopySameType it is still copied field by field
		b.label("key:identical-struct")
		fs, _ := keyFields(true)
		if b.coin("identical-key-unnamed") {
			return spec.Struct(fs...), spec.Struct(fs...)
		}
		sn := fmt.Sprintf("KS%d", b.id())
		b.A.Types = append(b.A.Types, &spec.TypeDecl{Name: sn, U: spec.Struct(fs...)})
		return spec.Named(b.A.Key, sn), spec.Named(b.A.Key, sn)
	}
}

func (b *Builder) exotic() (*spec.T, *spec.T) {
	var t *spec.T
	kind := b.draw(6, "exotic")
	if b.comparableOnly && kind == 2 {
		kind = 0 // funcs are not comparable
	}
	switch kind {
	case 5:
		// a struct of the standard library with unexported fields: convertible only as a whole
		b.label("leaf:std-time")
		t = spec.Named("time", "Time")
	case 0:
		t = spec.Iface("any")
	case 1:
		t = spec.Named("", "error")
	case 2:
		t = spec.Func([]string{"func() int", "func(string, ...int) string", "func(...string)"}[b.draw(3, "func-type")])
	case 3:
		t = spec.Chan("chan", spec.Basic("int"))
	default:
		t = spec.Iface("interface{ M() string }")
	}
	if b.Conv.Settings.SkipCopy {
		return t, t
	}
	if b.want("exotic") {
		b.defects--
		b.label("defect:exotic-without-skipcopy")
		return t, t
	}
	return b.leafBasic()
}

// sameType builds one type used on both sides (skipCopySameType).
func (b *Builder) sameType(depth int) (*spec.T, *spec.T) {
	var t *spec.T
	switch b.draw(6, "same-kind") {
	case 0:
		t = spec.Ptr(spec.Basic("int"))
	case 1:
		t = spec.Slice(spec.Basic("string"))
	case 2:
		t = spec.Map(spec.Basic("string"), spec.Basic("int"))
	case 3:
		s, _ := b.namedStruct(min(depth, 1))
		t = s
	case 4:
		t = spec.Slice(spec.Ptr(spec.Basic("int")))
	default:
		t = spec.Basic("string")
	}
	return t, t
}

// enumPair declares two enums with matching member names.
func (b *Builder) enumPair() (*spec.T, *spec.T) {
	if b.O.SamePkg {
		// member names of two enums in one package cannot coincide
		return b.leafBasic()
	}
	id := b.id()
	kinds := []string{"int", "string", "uint8", "int64"}
	ks := kinds[b.draw(len(kinds), "enum-kind-src")]
	kt := kinds[b.draw(len(kinds), "enum-kind-dst")]
	n := 1 + b.draw(4, "enum-n")
	var cs, ct []spec.Const
	for i := 0; i < n; i++ {
		name := fmt.Sprintf("E%d%c", id, 'A'+i)
		cs = append(cs, spec.Const{Name: name, Value: enumValue(ks, i+1)})
		ct = append(ct, spec.Const{Name: name, Value: enumValue(kt, i+10)})
	}
	if b.want("enum") && b.chance(60, "defect-enum") {
		b.defects--
		b.label("defect:enum-missing-target")
		cs = append(cs, spec.Const{Name: fmt.Sprintf("E%dExtra", id), Value: enumValue(ks, 99)})
	} else if b.coin("enum-extra-target") {
		ct = append(ct, spec.Const{Name: fmt.Sprintf("E%dOnlyTarget", id), Value: enumValue(kt, 77)})
	}
	sn, tn := fmt.Sprintf("EnumS%d", id), fmt.Sprintf("EnumT%d", id)
	b.A.Types = append(b.A.Types, &spec.TypeDecl{Name: sn, U: spec.Basic(ks), Consts: cs})
	b.B.Types = append(b.B.Types, &spec.TypeDecl{Name: tn, U: spec.Basic(kt), Consts: ct})
	if b.Conv.Settings.EnumUnknown == "" {
		b.Conv.Settings.EnumUnknown = "@ignore"
	}
	return spec.Named(b.A.Key, sn), spec.Named(b.B.Key, tn)
}

func enumValue(kind string, i int) string {
	if kind == "string" {
		return fmt.Sprintf("%q", fmt.Sprintf("v%d", i))
	}
	return fmt.Sprint(i)
}

var wordPool = []string{"Address", "Item", "Node", "Entry"}

// structNames names a struct pair: by id (S7 / T7), or with words the way hand-written code does
// it - Address, Address2, Address22 - so that identifiers derived from them by appending a
// counter can meet identifiers that end in a digit of their own.
func (b *Builder) structNames(id int) (string, string) {
	sn, tn := fmt.Sprintf("S%d", id), fmt.Sprintf("T%d", id)
	if b.O.SamePkg {
		sn, tn = fmt.Sprintf("SrcS%d", id), fmt.Sprintf("DstT%d", id)
	}
	if !b.chance(30, "word-type-name") {
		return sn, tn
	}
	if b.words == nil {
		b.words = map[string]bool{}
	}
	w := wordPool[b.draw(len(wordPool), "word")]
	var free []string
	for _, suf := range []string{"", "2", "3", "22"} {
		if !b.words[w+suf] {
			free = append(free, suf)
		}
	}
	if len(free) == 0 {
		return sn, tn
	}
	name := w + free[b.draw(len(free), "word-suffix")]
	b.words[name] = true
	b.label("naming:word-with-counter")
	if b.O.SamePkg {
		return "Src" + name, "Dst" + name
	}
	return name, name
}

// namedStruct declares a pair of named structs; with FieldSettings it may get a declared
// method of its own that carries field settings.
func (b *Builder) namedStruct(depth int) (*spec.T, *spec.T) {
	id := b.id()
	sn, tn := b.structNames(id)
	s, t := spec.Named(b.A.Key, sn), spec.Named(b.B.Key, tn)
	sd, td := &spec.TypeDecl{Name: sn}, &spec.TypeDecl{Name: tn}
	b.A.Types = append(b.A.Types, sd)
	b.B.Types = append(b.B.Types, td)
	var own *model.Method
	var sm *spec.Method
	twin := false
	if b.O.FieldSettings && b.want("overlap") && b.chance(50, "overlap-twin") {
		// field settings on the pointer twin: a by-value use of the pair would bypass them
		b.defects--
		b.label("defect:overlap-pointer-twin")
		own, sm = b.declare(fmt.Sprintf("Conv%d", id), spec.Ptr(s), spec.Ptr(t))
		twin = true
	} else if b.O.FieldSettings && (b.fieldDefect() || b.chance(60, "own-method")) {
		own, sm = b.declare(fmt.Sprintf("Conv%d", id), s, t)
	}
	b.stack = append(b.stack, openPair{s, t})
	savedTD := b.curTD
	b.curTD = td
	fs, ft := b.fields(depth, own, sd)
	b.curTD = savedTD
	b.stack = b.stack[:len(b.stack)-1]
	sd.U, td.U = spec.Struct(fs...), spec.Struct(ft...)
	if twin && len(own.Fields) == 0 && len(own.AutoMap) == 0 && own.FieldLines == 0 && len(ft) > 0 {
		// the twin must carry at least one field setting for the overlap rule to apply
		if b.coin("twin-automap-only") {
			// ... autoMap over a member nobody needs is a field setting like any other
			an := fmt.Sprintf("Auto%d", b.id())
			fs = append(fs, spec.F(an, spec.Struct(spec.F(fmt.Sprintf("Zed%d", b.id()), spec.Basic("int")))))
			sd.U = spec.Struct(fs...)
			own.AutoMap = append(own.AutoMap, an)
			b.label("defect:overlap-automap-only")
		} else {
			own.Fields[ft[0].Name] = &model.FieldCfg{Ignore: true}
		}
	}
	if own != nil {
		b.finishMethod(own, sm)
	}
	b.pairs = append(b.pairs, namedPair{s, t})
	return s, t
}

// declare adds a declared converter method (spec + model) for (s, t).
func (b *Builder) declare(name string, s, t *spec.T) (*model.Method, *spec.Method) {
	m := &model.Method{Name: name, Source: s, Target: t, Fields: map[string]*model.FieldCfg{}}
	sm := &spec.Method{Name: name, Params: []spec.Param{{Name: "source", T: b.spell(s)}}, Results: []*spec.T{b.spell(t)}}
	// context parameters at random positions
	for _, c := range b.Ctx {
		if b.O.DropContext && !b.ctxDropped && b.chance(35, "drop-context") {
			// this method does not own the context: custom functions that need it are unavailable here
			b.ctxDropped = true
			b.label("defect:context-not-owned")
			continue
		}
		pos := b.draw(len(sm.Params)+1, "ctx-pos")
		ps := append([]spec.Param{}, sm.Params[:pos]...)
		ps = append(ps, spec.Param{Name: c.Name, T: c.T})
		sm.Params = append(ps, sm.Params[pos:]...)
		m.Contexts = append(m.Contexts, c.T)
		if !b.ctxRegex {
			sm.Doc = append(sm.Doc, "context "+c.Name)
		}
	}
	if b.AllErr {
		m.Err = true
		sm.Results = append(sm.Results, spec.Named("", "error"))
	}
	b.Conv.Methods = append(b.Conv.Methods, m)
	b.SC.Methods = append(b.SC.Methods, sm)
	return m, sm
}

// newFunc declares a custom function S -> T in the converter package. Its result is
// a deterministic mark of all its inputs. withSource=false: no source parameter.
func (b *Builder) newFunc(s, t *spec.T, withSource bool) *model.Func {
	b.fnN++
	if b.fnN == 1 {
		b.C.Imports = append(b.C.Imports, b.Prog.Module+"/mark")
	}
	name := fmt.Sprintf("Fn%d", b.fnN)
	f := &model.Func{Name: name, Target: t}
	fd := &spec.FuncDecl{Name: name, Results: []*spec.T{t}}
	args := []string{}
	if b.O.ConvArg && b.O.Format == "" && b.chance(25, "conv-arg") {
		fd.Params = append(fd.Params, spec.Param{Name: "c", T: spec.Named(b.C.Key, "Converter")})
		args = append(args, "c != nil")
		b.label("func:converter-arg")
	}
	if withSource {
		f.Source = s
		fd.Params = append(fd.Params, spec.Param{Name: "source", T: b.spell(s)})
		args = append(args, "source")
	}
	for _, c := range b.Ctx {
		if !b.coin("func-needs-ctx") {
			continue
		}
		pos := len(fd.Params)
		if b.coin("ctx-before-source") && len(fd.Params) > 0 && fd.Params[0].Name != "c" {
			pos = 0
		}
		ps := append([]spec.Param{}, fd.Params[:pos]...)
		ps = append(ps, spec.Param{Name: c.Name, T: c.T})
		fd.Params = append(ps, fd.Params[pos:]...)
		f.Contexts = append(f.Contexts, c.T)
		args = append(args, c.Name)
		if !b.ctxRegex {
			fd.Doc = append(fd.Doc, " goverter:context "+c.Name)
		}
		b.label("func:context")
	}
	tx, _ := b.Prog.TypeExpr(b.C.Key, t)
	_ = tx
	argList := strings.Join(args, ", ")
	body := fmt.Sprintf("\treturn mark.Make[%s](%q, %s)", "RESULT", name, argList)
	rate := b.O.FallibleRate
	if rate == 0 {
		rate = 50
	}
	mismatch := b.O.ErrMismatch && !b.errMismatchDone && b.chance(50, "err-mismatch")
	if mismatch {
		b.errMismatchDone = true
		b.label("defect:error-result-missing")
	}
	if (b.AllErr && b.chance(rate, "func-fallible")) || mismatch {
		f.Err = true
		fd.Results = append(fd.Results, spec.Named("", "error"))
		body = fmt.Sprintf("\tif err := mark.Fail(%q, %s); err != nil {\n\t\tvar zero RESULT\n\t\treturn zero, err\n\t}\n\treturn mark.Make[RESULT](%q, %s), nil", name, argList, name, argList)
		b.label("func:fallible")
	}
	if len(args) == 0 {
		body = strings.ReplaceAll(body, ", )", ")")
	}
	fd.Body = body
	fd.ResultInBody = true
	b.C.Funcs = append(b.C.Funcs, fd)
	b.Funcs = append(b.Funcs, name)
	return f
}

func nillable(t *spec.T) bool {
	switch t.K {
	case spec.KPtr, spec.KSlice, spec.KMap, spec.KChan, spec.KFunc, spec.KIface:
		return true
	}
	return false
}

// extendPair creates a pair that is converted by an extend function.
func (b *Builder) extendPair(depth int) (*spec.T, *spec.T) {
	var s, t *spec.T
	if b.noPtrToNamed {
		// under update:ignoreZeroValueField:nillable keep function-converted sources non-nillable
		s, _ = b.leafBasic()
		_, t = b.Pair(min(depth, 1))
	} else if b.chance(25, "extend-identical") {
		// a function from a type to itself: never the identity, must still be called
		s, _ = b.Pair(min(depth, 1))
		if s.K == spec.KBasic {
			s = b.namedBasic(b.A, "Self", s)
		}
		t = s
		b.label("extend:identical-types")
	} else if b.coin("extend-independent") {
		// unrelated types: only the function can convert them
		s, _ = b.Pair(min(depth, 1))
		_, t = b.Pair(min(depth, 1))
		b.label("extend:independent")
	} else {
		s, t = b.Pair(min(depth, 2))
		b.label("extend:convertible")
	}
	for _, ep := range b.extPairs {
		if ep.s.Key_() == s.Key_() && ep.t.Key_() == t.Key_() {
			// several functions for one signature: precedence is not documented
			return s, t
		}
	}
	f := b.newFunc(s, t, true)
	b.Conv.Extends = append(b.Conv.Extends, f)
	b.extendDoc = append(b.extendDoc, "extend "+f.Name)
	b.extPairs = append(b.extPairs, namedPair{s, t})
	return s, t
}

// underPair: named basics converted by an extend function over their underlying types.
func (b *Builder) underPair() (*spec.T, *spec.T) {
	ks := []string{"int", "string", "int64", "bool"}
	k1, k2 := ks[b.draw(len(ks), "under-k1")], ks[b.draw(len(ks), "under-k2")]
	su, tu := spec.Basic(k1), spec.Basic(k2)
	for _, ep := range b.extPairs {
		if ep.s.Key_() == su.Key_() && ep.t.Key_() == tu.Key_() {
			return b.leafBasic()
		}
	}
	f := b.newFunc(su, tu, true)
	b.Conv.Extends = append(b.Conv.Extends, f)
	b.extendDoc = append(b.extendDoc, "extend "+f.Name)
	b.Conv.Settings.UseUnderlying = true
	b.extPairs = append(b.extPairs, namedPair{su, tu})
	s, t := su, tu
	switch b.draw(3, "under-which") {
	case 0:
		s = b.namedBasic(b.A, "U", su)
	case 1:
		t = b.namedBasic(b.B, "V", tu)
	default:
		s, t = b.namedBasic(b.A, "U", su), b.namedBasic(b.B, "V", tu)
	}
	b.label("extend:underlying")
	return s, t
}

// finishMethod renders the field settings of m into directive lines.
func (b *Builder) finishMethod(m *model.Method, sm *spec.Method) {
	for _, am := range m.AutoMap {
		sm.Doc = append(sm.Doc, "autoMap "+am)
	}
	names := make([]string, 0, len(m.Fields))
	for n := range m.Fields {
		names = append(names, n)
	}
	sortStrings(names)
	for _, n := range names {
		fc := m.Fields[n]
		switch {
		case fc.Ignore:
			sm.Doc = append(sm.Doc, "ignore "+n)
		case fc.Func != nil && fc.Source == "":
			sm.Doc = append(sm.Doc, fmt.Sprintf("map %s | %s", n, b.funcRef(fc.Func.Name)))
		case fc.Func != nil:
			sm.Doc = append(sm.Doc, fmt.Sprintf("map %s %s | %s", fc.Source, n, b.funcRef(fc.Func.Name)))
		case fc.Source != "":
			sm.Doc = append(sm.Doc, fmt.Sprintf("map %s %s", fc.Source, n))
		}
	}
}

func sortStrings(a []string) {
	for i := 1; i < len(a); i++ {
		for j := i; j > 0 && a[j] < a[j-1]; j-- {
			a[j], a[j-1] = a[j-1], a[j]
		}
	}
}

// fields builds the field lists of a struct pair. own is the declared method that
// converts this pair at its top (nil: no field settings possible here); sd is the source
// declaration (for source methods), nil for unnamed structs.
func (b *Builder) fields(depth int, own *model.Method, sd *spec.TypeDecl) ([]spec.Field, []spec.Field) {
	n := b.draw(b.O.MaxFields+1, "nfields")
	var fs, ft []spec.Field
	used := map[string]bool{}
	name := func() string {
		for i := 0; i < 20; i++ {
			c := fieldPool[b.draw(len(fieldPool), "fname")]
			if !used[strings.ToLower(c)] {
				used[strings.ToLower(c)] = true
				return c
			}
		}
		c := fmt.Sprintf("F%d", b.id())
		used[strings.ToLower(c)] = true
		return c
	}
	for i := 0; i < n; i++ {
		variants := []string{"plain", "plain", "plain", "srconly", "tagged"}
		if sd != nil && !b.O.SamePkg && !b.O.SourcesInConv && !b.inUpdate {
			variants = append(variants, "unexported-source-type")
		}
		if b.inUpdate && !b.comparableOnly && !b.noNillable {
			// members that zero guards treat as nillable: named and unnamed maps of basics
			variants = append(variants, "map-member", "map-member")
		}
		if !b.comparableOnly && !b.noNillable {
			variants = append(variants, "embedded")
		}
		if own != nil {
			variants = append(variants, "rename", "recase", "nest", "extra-ignore", "extra-missing", "automap", "recase-exact", "case-twin")
			if b.noDot {
				b.label("excluded:F-UPDATE-PTRSRC-WHOLE")
			} else {
				variants = append(variants, "dot")
			}
			if b.O.Custom {
				variants = append(variants, "mapfunc", "mapfunc", "mapfunc-nosource", "digit-siblings")
			}
			for _, k := range []string{"ambiguous-case", "unknown-field", "ambiguous-automap", "map-promoted"} {
				if b.want(k) {
					variants = append(variants, k, k, k)
				}
			}
			if b.O.Methods && sd != nil {
				variants = append(variants, "method", "method-casefield")
				if b.want("ambiguous-method") {
					variants = append(variants, "ambiguous-method", "ambiguous-method", "ambiguous-method")
				}
			}
		}
		if b.O.Unexported {
			if sd == nil && !b.O.SamePkg && b.O.Custom {
				// an unnamed struct type with unexported fields written in the converter package (as
				// parameter or result of a custom function) is another type than the one written
				// in the type packages: not generated
			} else if sd == nil && !b.O.SamePkg && b.NoUnnamedUnexported {
				// unnamed struct types with unexported fields cannot be spelled in another
				// package (known finding F-UNNAMED-UNEXPORTED)
				b.label("excluded:F-UNNAMED-UNEXPORTED")
			} else {
				variants = append(variants, "unexported")
			}
		}
		if b.want("missing") {
			variants = append(variants, "defect-missing", "defect-missing")
		}
		v := variants[b.draw(len(variants), "fvariant")]
		b.label("field:" + v)
		switch v {
		case "plain":
			nm := name()
			s, t := b.pairAssign(depth - 1)
			fs = append(fs, spec.F(nm, b.spell(s)))
			ft = append(ft, spec.F(nm, b.spell(t)))
		case "unexported-source-type":
			// exported source field of a named basic type with an unexported name (type level int):
			// the conversion T(source.F) never spells the source type, so it is convertible
			nm := name()
			s, t := b.leafBasic()
			if s.K == spec.KNamed {
				s = b.Prog.Underlying(s)
			}
			tn := fmt.Sprintf("lvl%s%d", strings.Title(strings.ReplaceAll(s.Name, ".", "")), b.id())
			b.A.Types = append(b.A.Types, &spec.TypeDecl{Name: tn, U: s})
			b.label("field:unexported-source-type")
			fs = append(fs, spec.F(nm, spec.Named(b.A.Key, tn)))
			ft = append(ft, spec.F(nm, t))
		case "map-member":
			nm := name()
			ks, kt := b.keyPair()
			vs, vt := b.leafBasic()
			ms, mt := spec.Map(ks, vs), spec.Map(kt, vt)
			if b.coin("map-member-named") {
				id := b.id()
				sn, tn := fmt.Sprintf("NM%d", id), fmt.Sprintf("MM%d", id)
				b.A.Types = append(b.A.Types, &spec.TypeDecl{Name: sn, U: ms})
				b.B.Types = append(b.B.Types, &spec.TypeDecl{Name: tn, U: mt})
				ms, mt = spec.Named(b.A.Key, sn), spec.Named(b.B.Key, tn)
				b.label("field:named-map-member")
			}
			fs = append(fs, spec.F(nm, ms))
			ft = append(ft, spec.F(nm, mt))
		case "tagged":
			nm := name()
			s, t := b.pairAssign(depth - 1)
			tag := fmt.Sprintf(`json:"%s,omitempty" db:"c%d"`, strings.ToLower(nm), b.id())
			fs = append(fs, spec.Field{Name: nm, T: s, Tag: tag})
			ft = append(ft, spec.Field{Name: nm, T: t, Tag: tag})
		case "embedded":
			// both sides embed the same small named struct, optionally tagged
			id := b.id()
			en := fmt.Sprintf("Emb%d", id)
			if used[strings.ToLower(en)] {
				break
			}
			used[strings.ToLower(en)] = true
			b.A.Types = append(b.A.Types, &spec.TypeDecl{Name: en, U: spec.Struct(spec.F("V", spec.Basic("int")), spec.F("W", spec.Basic("string")))})
			et := spec.Named(b.A.Key, en)
			tag := ""
			if b.coin("embedded-tag") {
				tag = `json:",inline"`
			}
			fs = append(fs, spec.Field{Name: en, T: et, Embedded: true, Tag: tag})
			ft = append(ft, spec.Field{Name: en, T: et, Embedded: true, Tag: tag})
		case "srconly":
			s, _ := b.leafBasic()
			fs = append(fs, spec.F(name(), s))
		case "rename":
			sn, tn := name(), name()
			s, t := b.pairAssign(depth - 1)
			fs = append(fs, spec.F(sn, s))
			ft = append(ft, spec.F(tn, t))
			own.Fields[tn] = &model.FieldCfg{Source: sn}
		case "recase":
			nm := name()
			tn := flipCase(nm)
			s, t := b.pairAssign(depth - 1)
			fs = append(fs, spec.F(nm, s))
			ft = append(ft, spec.F(tn, t))
			own.Settings.MatchIgnoreCase = true
			own.FieldLines++
		case "mapfunc":
			sn, tn := name(), name()
			st, _ := b.Pair(min(depth-1, 1))
			_, tt := b.Pair(min(depth-1, 1))
			f := b.newFunc(st, tt, true)
			fs = append(fs, spec.F(sn, st))
			ft = append(ft, spec.F(tn, tt))
			own.Fields[tn] = &model.FieldCfg{Source: sn, Func: f}
		case "digit-siblings":
			// target fields of types W2, W, W (in this order) filled by extend functions: the locals
			// derived from W get a counter appended and must not meet the local derived from W2
			if b.words == nil {
				b.words = map[string]bool{}
			}
			w := ""
			for _, cand := range wordPool {
				if !b.words[cand] && !b.words[cand+"2"] {
					w = cand
				}
			}
			if w == "" {
				break
			}
			b.words[w], b.words[w+"2"] = true, true
			b.label("naming:digit-siblings")
			mk := func(nm string) *spec.T {
				tn := nm
				if b.O.SamePkg {
					tn = "Dst" + nm
				}
				b.B.Types = append(b.B.Types, &spec.TypeDecl{Name: tn, U: spec.Struct(spec.F("V", spec.Basic("int")))})
				return spec.Named(b.B.Key, tn)
			}
			t2, t1 := mk(w+"2"), mk(w)
			src := spec.Basic("string")
			for _, t := range []*spec.T{t2, t1} {
				f := b.newFunc(src, t, true)
				b.Conv.Extends = append(b.Conv.Extends, f)
				b.extendDoc = append(b.extendDoc, "extend "+f.Name)
				b.extPairs = append(b.extPairs, namedPair{src, t})
			}
			// value -> pointer targets need a named temporary even when the function cannot fail
			viaPtr := !b.noNillable && !b.comparableOnly && b.coin("digit-siblings-pointer-targets")
			for _, t := range []*spec.T{t2, t1, t1} {
				nm := name()
				fs = append(fs, spec.F(nm, src))
				if viaPtr {
					t = spec.Ptr(t)
				}
				ft = append(ft, spec.F(nm, t))
			}
		case "mapfunc-nosource":
			tn := name()
			_, tt := b.Pair(min(depth-1, 1))
			f := b.newFunc(nil, tt, false)
			ft = append(ft, spec.F(tn, tt))
			own.Fields[tn] = &model.FieldCfg{Func: f}
		case "case-twin":
			// two target fields that differ only in case and a setting on one of them: under
			// matchIgnoreCase the setting must stay on the field it names
			nm := name()
			tw := flipCase(nm)
			if !strings.EqualFold(nm, tw) || nm == tw {
				break
			}
			b.label("field:case-twin")
			s, t := b.leafBasic()
			fs = append(fs, spec.F(nm, s), spec.F(tw, s))
			ft = append(ft, spec.F(nm, t), spec.F(tw, t))
			own.Settings.MatchIgnoreCase = true
			own.FieldLines++
			how := b.draw(3, "case-twin-how")
			switch {
			case how == 0:
				own.Fields[tw] = &model.FieldCfg{Ignore: true}
			case how == 1 || !b.O.Custom:
				other := name()
				fs = append(fs, spec.F(other, s))
				own.Fields[tw] = &model.FieldCfg{Source: other}
			default:
				own.Fields[tw] = &model.FieldCfg{Source: tw, Func: b.newFunc(s, t, true)}
			}
		case "recase-exact":
			// exact-name candidate next to a case-insensitive one: the exact one wins
			nm := name()
			other := flipCase(nm)
			s, t := b.pairAssign(depth - 1)
			s2, _ := b.leafBasic()
			fs = append(fs, spec.F(other, s2), spec.F(nm, s))
			ft = append(ft, spec.F(nm, t))
			own.Settings.MatchIgnoreCase = true
			own.FieldLines++
		case "ambiguous-case":
			nm := name()
			if len(nm) < 3 {
				break
			}
			b.defects--
			b.label("defect:ambiguous-case")
			s, t := b.leafBasic()
			fs = append(fs, spec.F(nm, s), spec.F(flipCase(nm), s))
			ft = append(ft, spec.F(flipCaseAt(nm, 2), t))
			own.Settings.MatchIgnoreCase = true
			own.FieldLines++
			if b.coin("ambiguous-with-ignoremissing") {
				own.Settings.IgnoreMissing = true
				own.FieldLines++
			}
		case "unknown-field":
			b.defects--
			b.label("defect:unknown-field")
			tn := fmt.Sprintf("Nope%d", b.id())
			if b.curTD != nil && b.coin("unknown-is-target-method") {
				// the name exists on the target type, but as a method: still not a field
				b.label("defect:unknown-field-is-target-method")
				b.curTD.Methods = append(b.curTD.Methods, spec.TypeMethod{Name: tn, Ptr: b.coin("target-method-ptr"), Result: spec.Basic("int"), Body: "return 7"})
			}
			if b.coin("unknown-how") {
				own.Fields[tn] = &model.FieldCfg{Ignore: true}
			} else {
				nm := name()
				s, _ := b.leafBasic()
				fs = append(fs, spec.F(nm, s))
				own.Fields[tn] = &model.FieldCfg{Source: nm}
			}
		case "map-promoted":
			// map names a field that the source only has through an embedded pointer (a promoted
			// field): a source path is made of the struct's own fields and methods
			b.defects--
			b.label("defect:map-promoted-field")
			id := b.id()
			en := fmt.Sprintf("EmbP%d", id)
			pf := fmt.Sprintf("Prom%d", id)
			b.A.Types = append(b.A.Types, &spec.TypeDecl{Name: en, U: spec.Struct(spec.F(pf, spec.Basic("int")))})
			fs = append(fs, spec.Field{Name: en, T: spec.Ptr(spec.Named(b.A.Key, en)), Embedded: true})
			tn := name()
			ft = append(ft, spec.F(tn, spec.Basic("int")))
			own.Fields[tn] = &model.FieldCfg{Source: pf}
		case "ambiguous-automap":
			b.defects--
			b.label("defect:ambiguous-automap")
			outer, inner := name(), name()
			s, t := b.leafBasic()
			fs = append(fs, spec.F(outer, spec.Struct(spec.F(inner, s))), spec.F(inner, s))
			ft = append(ft, spec.F(inner, t))
			own.AutoMap = append(own.AutoMap, outer)
		case "nest", "automap":
			// source: Outer struct{ Inner T } (optionally behind a pointer); target: flat field
			outer, inner := name(), name()
			s, t := b.pairAssign(depth - 1)
			viaPtr := b.coin("nest-ptr")
			nested := spec.Struct(spec.F(inner, s))
			if v == "automap" {
				// autoMap exposes every field of the nested struct; keep it to this one
				var ot *spec.T = nested
				if viaPtr {
					ot = spec.Ptr(nested)
					if t.K != spec.KPtr {
						t = spec.Ptr(t)
					}
				}
				fs = append(fs, spec.F(outer, ot))
				ft = append(ft, spec.F(inner, t))
				own.AutoMap = append(own.AutoMap, outer)
				break
			}
			var ot *spec.T = nested
			if viaPtr {
				ot = spec.Ptr(nested)
				// a path through a pointer yields a pointer source: the target must accept it
				if t.K != spec.KPtr {
					t = spec.Ptr(t)
				}
			}
			tn := name()
			fs = append(fs, spec.F(outer, ot))
			ft = append(ft, spec.F(tn, t))
			own.Fields[tn] = &model.FieldCfg{Source: outer + "." + inner}
		case "extra-ignore":
			tn := name()
			_, t := b.leafBasic()
			ft = append(ft, spec.F(tn, t))
			own.Fields[tn] = &model.FieldCfg{Ignore: true}
		case "extra-missing":
			tn := name()
			_, t := b.leafBasic()
			ft = append(ft, spec.F(tn, t))
			own.Settings.IgnoreMissing = true
			own.FieldLines++
		case "dot":
			// target field receives a struct built from the whole source: needs the
			// fields of the nested target struct to exist on the source
			if len(fs) == 0 {
				nm := name()
				s, t := b.leafBasic()
				fs = append(fs, spec.F(nm, s))
				ft = append(ft, spec.F(nm, t))
			}
			pick := fs[b.draw(len(fs), "dot-field")]
			var tt *spec.T
			for _, f := range ft {
				if f.Name == pick.Name {
					tt = f.T
				}
			}
			if tt == nil || pick.T.K != spec.KBasic || tt.K != spec.KBasic {
				break
			}
			tn := name()
			ft = append(ft, spec.F(tn, spec.Struct(spec.F(pick.Name, tt))))
			own.Fields[tn] = &model.FieldCfg{Source: "."}
		case "method":
			mn := name()
			k := []string{"int", "string", "bool"}[b.draw(3, "method-kind")]
			tm := spec.TypeMethod{Name: mn, Result: spec.Basic(k), Body: "return " + zeroLit(k)}
			if b.AllErr && b.coin("method-fallible") {
				id := sd.Name + "." + mn
				tm.Err = true
				tm.Body = fmt.Sprintf("if err := mark.Fail(%q, r); err != nil {\n\t\treturn %s, err\n\t}\n\treturn %s, nil", id, zeroLit(k), zeroLit(k))
				if !b.aImportsMark {
					b.aImportsMark = true
					b.A.Imports = append(b.A.Imports, b.Prog.Module+"/mark")
				}
				b.label("method:fallible")
			} else if b.O.ErrMismatch && !b.errMismatchDone && b.chance(40, "method-err-mismatch") {
				// a source method that returns an error under a declared method without error result
				b.errMismatchDone = true
				b.label("defect:error-result-missing")
				b.label("defect:fallible-source-method")
				tm.Err = true
				tm.Body = fmt.Sprintf("return %s, nil", zeroLit(k))
				if b.coin("err-mismatch-with-ignoremissing") {
					own.Settings.IgnoreMissing = true
					own.FieldLines++
				}
			}
			sd.Methods = append(sd.Methods, tm)
			ft = append(ft, spec.F(mn, spec.Basic(k)))
		case "method-casefield", "ambiguous-method":
			// a source method next to a field whose name differs only in case
			mn := name()
			if len(mn) < 3 {
				break
			}
			k := []string{"int", "string", "bool"}[b.draw(3, "method-kind")]
			methodName := mn
			if v == "ambiguous-method" {
				b.defects--
				b.label("defect:ambiguous-method-case")
				methodName = flipCaseAt(mn, 2)
			}
			sd.Methods = append(sd.Methods, spec.TypeMethod{Name: methodName, Result: spec.Basic(k), Body: "return " + zeroLit(k)})
			fs = append(fs, spec.F(flipCase(mn), spec.Basic(k)))
			ft = append(ft, spec.F(mn, spec.Basic(k)))
			own.Settings.MatchIgnoreCase = true
			own.FieldLines++
		case "unexported":
			nm := unexportedPool[b.draw(len(unexportedPool), "uname")]
			if used[nm] {
				break
			}
			used[nm] = true
			s, t := b.leafBasic()
			fs = append(fs, spec.F(nm, s))
			ft = append(ft, spec.F(nm, t))
			if b.O.TargetsInConv && !b.O.SamePkg {
				// the target field is accessible (output package), the source field of package a is not
				b.label("unexported-source-other-package")
				break
			}
			if b.O.SamePkg && own != nil && b.chance(30, "ignore-unexported-in-own-package") {
				// the output package may write the field, ignoreUnexported still says: leave it alone
				b.label("field:ignore-unexported-accessible")
				own.Settings.IgnoreUnexported = true
				own.FieldLines++
			}
			if !b.O.SamePkg {
				switch {
				case b.want("unexported") && own != nil && b.O.Custom && b.coin("unexported-target-func-first"):
					// a custom function for the field does not make it writable
					b.defects--
					b.label("defect:unexported-target")
					b.label("defect:unexported-target-with-func")
					// (fed from an exported source field, so that only the target is in the way)
					feed := name()
					fs = append(fs, spec.F(feed, s))
					own.Fields[nm] = &model.FieldCfg{Source: feed, Func: b.newFunc(s, t, true)}
				case own != nil && b.coin("unexported-how"):
					own.Fields[nm] = &model.FieldCfg{Ignore: true}
				case own != nil:
					own.Settings.IgnoreUnexported = true
					own.FieldLines++
				case b.want("unexported"):
					b.defects--
					b.label("defect:unexported-target")
					if false {
						// a custom function for the field does not make it writable
						b.label("defect:unexported-target-with-func")
						own.Fields[nm] = &model.FieldCfg{Source: nm, Func: b.newFunc(s, t, true)}
					}
				default:
					// no way to make it convertible: drop the target field
					ft = ft[:len(ft)-1]
				}
			}
		case "defect-missing":
			b.defects--
			b.label("defect:missing-source-field")
			_, t := b.leafBasic()
			ft = append(ft, spec.F(name(), t))
		}
	}
	// shuffle target field order a little: rotate
	if len(ft) > 1 && b.coin("rotate") {
		ft = append(ft[1:], ft[0])
	}
	return fs, ft
}

func zeroLit(k string) string {
	switch k {
	case "string":
		return `"m"`
	case "bool":
		return "true"
	}
	return "7"
}

// Method declares a top-level converter method over a fresh pair.
func (b *Builder) Method(name string, depth int) *model.Method {
	b.topLevel = true
	s, t := b.Pair(depth)
	for _, m := range b.Conv.Methods {
		if m.Source.Key_() == s.Key_() && m.Target.Key_() == t.Key_() {
			return m // the pair got its own method already
		}
	}
	m, _ := b.declare(name, s, t)
	return m
}

// PointerTwin (skipCopySameType programs): a declared method *S -> *S over one named struct type
// next to positions S -> *S (struct field and slice element) in another method with a value and
// with a pointer source. Only identical types may be shared: *S -> *S shares the pointee, S -> *S
// must not point into the source (the source holds an S there, not a *S).
func (b *Builder) PointerTwin(name string) {
	id := b.id()
	sn := fmt.Sprintf("Twin%d", id)
	b.A.Types = append(b.A.Types, &spec.TypeDecl{Name: sn, U: spec.Struct(
		spec.F("ID", spec.Basic("int")), spec.F("Tags", spec.Slice(spec.Basic("string"))), spec.F("P", spec.Ptr(spec.Basic("int"))))})
	st := spec.Named(b.A.Key, sn)
	b.declare(fmt.Sprintf("Keep%d", id), spec.Ptr(st), spec.Ptr(st))
	wn, vn := fmt.Sprintf("TwinSrc%d", id), fmt.Sprintf("TwinDst%d", id)
	b.A.Types = append(b.A.Types, &spec.TypeDecl{Name: wn, U: spec.Struct(spec.F("Primary", st), spec.F("Items", spec.Slice(st)))})
	b.B.Types = append(b.B.Types, &spec.TypeDecl{Name: vn, U: spec.Struct(spec.F("Primary", spec.Ptr(st)), spec.F("Items", spec.Slice(spec.Ptr(st))))})
	w, v := spec.Named(b.A.Key, wn), spec.Named(b.B.Key, vn)
	b.declare(name, w, v)
	b.declare(name+"P", spec.Ptr(w), spec.Ptr(v))
	b.label("skipcopy:pointer-twin")
}

// FuncTypeSignature (skipCopySameType programs) declares a method whose signature spells function
// types - variadic ones included - inside unnamed containers, on both sides alike.
func (b *Builder) FuncTypeSignature(name string) {
	f := spec.Func([]string{"func(...string)", "func(string, ...int) string", "func(int) (string, error)", "func(func(...int)) []string"}[b.draw(4, "func-signature")])
	if b.coin("func-signature-named-element") {
		// the element of the variadic parameter is a named type of the source package
		opt := b.namedBasic(b.A, "Opt", spec.Basic("int"))
		f = spec.FuncOf([]string{"func(...%s)", "func(string, ...%s) string", "func(%s) error"}[b.draw(3, "func-signature-named")], opt)
	}
	var t *spec.T
	switch b.draw(3, "func-signature-container") {
	case 0:
		t = spec.Map(spec.Basic("string"), f)
	case 1:
		t = spec.Slice(f)
	default:
		t = spec.Struct(spec.F("F", f), spec.F("N", spec.Basic("int")))
	}
	b.declare(name, t, t)
	b.label("shape:func-type-signature")
}

// SharedHelperOverride declares two methods whose struct pairs hold the same named pair S -> T, so
// that one generated helper serves both. The first one (by name, which is the order of generation)
// overrides an inheritable setting at method level; the second one has no setting of its own and
// must behave as the converter level says - a sibling's setting must not reach it through the
// shared helper. Only the second method is executed. kind: "skipcopy" | "wrap-off".
func (b *Builder) SharedHelperOverride(kind string) {
	id := b.id()
	sn, tn := fmt.Sprintf("Shared%dS", id), fmt.Sprintf("Shared%dT", id)
	ref := []spec.Field{spec.F("Tags", spec.Slice(spec.Basic("string"))), spec.F("Credit", spec.Ptr(spec.Basic("int"))), spec.F("Attrs", spec.Map(spec.Basic("string"), spec.Basic("string")))}
	fs, ft := append([]spec.Field{}, ref...), append([]spec.Field{}, ref...)
	if b.O.Custom {
		// a custom function inside the shared pair (for error locations)
		vs, vt := b.extendPair(1)
		fs, ft = append(fs, spec.F("Val", vs)), append(ft, spec.F("Val", vt))
	}
	b.A.Types = append(b.A.Types, &spec.TypeDecl{Name: sn, U: spec.Struct(fs...)})
	b.B.Types = append(b.B.Types, &spec.TypeDecl{Name: tn, U: spec.Struct(ft...)})
	s, t := spec.Named(b.A.Key, sn), spec.Named(b.B.Key, tn)
	wrap := func(n string, extra bool) (*spec.T, *spec.T) {
		wf, vf := []spec.Field{spec.F("Inner", s)}, []spec.Field{spec.F("Inner", t)}
		if extra {
			wf, vf = append(wf, spec.F("N", spec.Basic("int"))), append(vf, spec.F("N", spec.Basic("int")))
		}
		b.A.Types = append(b.A.Types, &spec.TypeDecl{Name: n + "S", U: spec.Struct(wf...)})
		b.B.Types = append(b.B.Types, &spec.TypeDecl{Name: n + "T", U: spec.Struct(vf...)})
		return spec.Named(b.A.Key, n+"S"), spec.Named(b.B.Key, n+"T")
	}
	as, at := wrap(fmt.Sprintf("OverWrap%d", id), false)
	bs, bt := wrap(fmt.Sprintf("PlainWrap%d", id), true)
	ma, sma := b.declare(fmt.Sprintf("AOver%d", id), as, at)
	ma.NoExec = true
	switch kind {
	case "skipcopy":
		sma.Doc = append(sma.Doc, "skipCopySameType")
	case "wrap-off":
		sma.Doc = append(sma.Doc, "wrapErrors no")
	}
	b.declare(fmt.Sprintf("BPlain%d", id), bs, bt)
	b.label("shared-helper-override:" + kind)
}

// RecursiveLate declares a method over a wrapper of a recursive struct pair whose helper methods
// are generated: X{Child *X | []X | map[string]X; Val P} -> Y{...}, with P -> Q converted by a
// custom function that may need a context and may return an error. The helper for the recursive
// member is generated before the function call is met, so what the function needs (context
// argument, error result) has to reach helpers that were finished earlier.
func (b *Builder) RecursiveLate(name string) *model.Method {
	id := b.id()
	ps, pt := b.structNames(b.id())
	b.A.Types = append(b.A.Types, &spec.TypeDecl{Name: ps, U: spec.Struct(spec.F("V", spec.Basic("int")))})
	b.B.Types = append(b.B.Types, &spec.TypeDecl{Name: pt, U: spec.Struct(spec.F("V", spec.Basic("int")))})
	p, q := spec.Named(b.A.Key, ps), spec.Named(b.B.Key, pt)
	f := b.newFunc(p, q, true)
	b.Conv.Extends = append(b.Conv.Extends, f)
	b.extendDoc = append(b.extendDoc, "extend "+f.Name)
	b.extPairs = append(b.extPairs, namedPair{p, q})
	xn, yn := fmt.Sprintf("RecS%d", id), fmt.Sprintf("RecT%d", id)
	x, y := spec.Named(b.A.Key, xn), spec.Named(b.B.Key, yn)
	var cs, ct *spec.T
	switch b.draw(3, "recursive-late-via") {
	case 0:
		cs, ct = spec.Ptr(x), spec.Ptr(y)
	case 1:
		cs, ct = spec.Slice(x), spec.Slice(y)
	default:
		cs, ct = spec.Map(spec.Basic("string"), x), spec.Map(spec.Basic("string"), y)
	}
	fx := []spec.Field{spec.F("Child", cs), spec.F("Val", p)}
	fy := []spec.Field{spec.F("Child", ct), spec.F("Val", q)}
	if b.coin("recursive-late-function-first") {
		fx[0], fx[1] = fx[1], fx[0]
		fy[0], fy[1] = fy[1], fy[0]
	}
	b.A.Types = append(b.A.Types, &spec.TypeDecl{Name: xn, U: spec.Struct(fx...)})
	b.B.Types = append(b.B.Types, &spec.TypeDecl{Name: yn, U: spec.Struct(fy...)})
	wn, zn := fmt.Sprintf("RecWrapS%d", id), fmt.Sprintf("RecWrapT%d", id)
	b.A.Types = append(b.A.Types, &spec.TypeDecl{Name: wn, U: spec.Struct(spec.F("X", x))})
	b.B.Types = append(b.B.Types, &spec.TypeDecl{Name: zn, U: spec.Struct(spec.F("X", y))})
	b.label("shape:recursive-late")
	m, _ := b.declare(name, spec.Named(b.A.Key, wn), spec.Named(b.B.Key, zn))
	return m
}

// StructMethod declares a top-level converter method whose pair is a named struct pair.
func (b *Builder) StructMethod(name string, depth int) *model.Method {
	if depth < 1 {
		depth = 1
	}
	s, t := b.namedStruct(depth)
	for _, m := range b.Conv.Methods {
		if m.Source.Key_() == s.Key_() && m.Target.Key_() == t.Key_() {
			return m
		}
	}
	m, _ := b.declare(name, s, t)
	return m
}

// spell returns t written with a type alias (about one named, non-generic occurrence in eight):
// the alias is declared next to the type. Aliases are another spelling of the same type, so
// nothing about the conversion may change.
func (b *Builder) spell(t *spec.T) *spec.T {
	if t == nil || t.K != spec.KNamed || t.Pkg == "" || len(t.Args) > 0 || t.Spell != "" || !b.chance(12, "alias-spelling") {
		return t
	}
	d := b.Prog.Decl(t)
	if d == nil || len(d.Params) > 0 {
		return t
	}
	alias := d.Name + "Alias"
	have := false
	for _, a := range d.Spellings {
		if a == alias {
			have = true
		}
	}
	if !have {
		d.Spellings = append(d.Spellings, alias)
	}
	b.label("spelling:type-alias")
	c := *t
	c.Spell = alias
	return &c
}

// funcRef spells a reference to a custom function of the converter package: by name, or with
// the package path in front (the documented [PACKAGE:]FUNC form, resolved by another lookup).
func (b *Builder) funcRef(name string) string {
	if b.chance(30, "func-ref-with-package") {
		b.label("func-ref:package-qualified")
		return b.Prog.ImportPath(b.C.Key) + ":" + name
	}
	return name
}

// spellExtends renders the extend lines in one of the documented spellings: one line per
// function, all on one line, package-qualified, or one regular expression matching exactly them.
func (b *Builder) spellExtends() []string {
	var names []string
	for _, l := range b.extendDoc {
		names = append(names, strings.TrimPrefix(l, "extend "))
	}
	if len(names) == 0 {
		return nil
	}
	pkg := b.Prog.ImportPath(b.C.Key) + ":"
	switch b.draw(5, "extend-spelling") {
	case 1:
		b.label("extend-spelling:one-line")
		return []string{"extend " + strings.Join(names, " ")}
	case 2:
		b.label("extend-spelling:package-qualified")
		var out []string
		for _, n := range names {
			out = append(out, "extend "+pkg+n)
		}
		return out
	case 3, 4:
		// all generated names are Fn<number>: the alternation matches exactly the listed ones
		// (a pattern that is a literal in disguise, like Fn(1), is looked up by its text)
		if len(names) < 2 {
			return b.extendDoc
		}
		var nums []string
		for _, n := range names {
			if !strings.HasPrefix(n, "Fn") {
				return b.extendDoc
			}
			nums = append(nums, strings.TrimPrefix(n, "Fn"))
		}
		b.label("extend-spelling:regexp")
		// anchored: alternation is leftmost-first, so Fn(1|10) alone would stop at Fn1 inside Fn10
		// and goverter only accepts matches of the whole name
		re := "Fn(" + strings.Join(nums, "|") + ")$"
		if b.coin("extend-regexp-with-package") {
			re = pkg + re
		}
		return []string{"extend " + re}
	}
	return b.extendDoc
}

// Finish propagates converter-level settings into every method and renders them.
func (b *Builder) Finish() {
	for _, m := range b.Conv.Methods {
		s := b.Conv.Settings
		ms := m.Settings
		s.MatchIgnoreCase = ms.MatchIgnoreCase
		s.IgnoreMissing = ms.IgnoreMissing
		s.IgnoreUnexported = ms.IgnoreUnexported
		if ms.EnumUnknown != "" {
			s.EnumUnknown = ms.EnumUnknown
		}
		s.ZeroBasic = s.ZeroBasic || ms.ZeroBasic
		s.ZeroStruct = s.ZeroStruct || ms.ZeroStruct
		s.ZeroNillable = s.ZeroNillable || ms.ZeroNillable
		s.DefaultUpdate = s.DefaultUpdate || ms.DefaultUpdate
		s.ZeroPtr = s.ZeroPtr || ms.ZeroPtr
		m.Settings = s
	}
	for i, m := range b.Conv.Methods {
		m.Roles = nil
		for _, p := range b.SC.Methods[i].Params {
			switch p.Name {
			case "source":
				m.Roles = append(m.Roles, "source")
			case "target":
				m.Roles = append(m.Roles, "target")
			default:
				m.Roles = append(m.Roles, "context")
			}
		}
	}
	for _, l := range b.Conv.Settings.Lines() {
		skip := false
		for _, g := range b.GlobalOnly {
			if g == l {
				skip = true
			}
		}
		if !skip {
			b.SC.Doc = append(b.SC.Doc, l)
		}
	}
	if b.ctxRegex {
		b.SC.Doc = append(b.SC.Doc, "arg:context:regex ^ctx")
	}
	// parts of update:ignoreZeroValueField that are off at converter level may say so explicitly
	// (the default spelled out): a method that sets the collective key still decides all three
	hasUpdate := false
	for _, m := range b.Conv.Methods {
		if m.Update || m.Default != nil {
			hasUpdate = true
		}
	}
	if hasUpdate {
		cs := b.Conv.Settings
		for _, part := range []struct {
			name string
			on   bool
		}{{"basic", cs.ZeroBasic}, {"struct", cs.ZeroStruct}, {"nillable", cs.ZeroNillable}} {
			if !part.on && b.chance(30, "explicit-zero-part-off") {
				b.label("zero-part-explicitly-off")
				b.SC.Doc = append(b.SC.Doc, "update:ignoreZeroValueField:"+part.name+" no")
			}
		}
	}
	b.SC.Doc = append(b.SC.Doc, b.spellExtends()...)
	if b.chance(15, "raw-output") {
		// user-supplied code and comments that are copied into the output
		b.label("output:raw")
		fn := fmt.Sprintf("RawHelper%d", b.id())
		b.SC.Doc = append(b.SC.Doc, "output:raw func "+fn+"() string {", "output:raw \treturn \"raw\"", "output:raw }")
		if b.O.Format == "" {
			b.SC.Doc = append(b.SC.Doc, "struct:comment converts things", "struct:comment // second line")
		}
	}
	for i, m := range b.Conv.Methods {
		sm := b.SC.Methods[i]
		if m.Settings.MatchIgnoreCase {
			sm.Doc = append(sm.Doc, "matchIgnoreCase")
		}
		if m.Settings.IgnoreMissing {
			sm.Doc = append(sm.Doc, "ignoreMissing")
		}
		if m.Settings.IgnoreUnexported {
			sm.Doc = append(sm.Doc, "ignoreUnexported")
		}
		cs := b.Conv.Settings
		only := model.Settings{
			ZeroBasic: m.Settings.ZeroBasic && !cs.ZeroBasic, ZeroStruct: m.Settings.ZeroStruct && !cs.ZeroStruct,
			ZeroNillable: m.Settings.ZeroNillable && !cs.ZeroNillable, DefaultUpdate: m.Settings.DefaultUpdate && !cs.DefaultUpdate,
			ZeroPtr: m.Settings.ZeroPtr && !cs.ZeroPtr,
		}
		sm.Doc = append(sm.Doc, only.Lines()...)
	}
}

// flipCase changes the case of the second letter, keeping the name exported.
func flipCase(n string) string { return flipCaseAt(n, 1) }

func flipCaseAt(n string, i int) string {
	if len(n) < i+1 {
		return n + "X"
	}
	c := n[i]
	switch {
	case c >= 'a' && c <= 'z':
		c = c - 'a' + 'A'
	case c >= 'A' && c <= 'Z':
		c = c - 'A' + 'a'
	default:
		return n + "X"
	}
	return n[:i] + string(c) + n[i+1:]
}

func btoi(b bool) int {
	if b {
		return 1
	}
	return 0
}

// want reports whether a defect of the given kind should be injected now.
func (b *Builder) want(kind string) bool {
	return b.defects > 0 && b.defectKind == kind
}

func (b *Builder) fieldDefect() bool {
	if b.defects == 0 {
		return false
	}
	switch b.defectKind {
	case "ambiguous-case", "unknown-field", "ambiguous-automap", "ambiguous-method", "map-promoted":
		return true
	}
	return false
}

// SamePkgOutput reports whether the output goes into the converter's package.
func (o Opts) SamePkgOutput() bool { return o.SamePkg }

// zeroCategories draws update:ignoreZeroValueField categories and places them at
// converter or method level.
func (b *Builder) zeroCategories(m *model.Method) {
	// the converter-level categories are decided once, before the first method that depends on
	// them is generated: exclusions by construction look at them while the method's types are drawn
	if !b.convZeroDecided {
		b.convZeroDecided = true
		if b.coin("zero-at-converter-level") {
			bits := b.draw(8, "conv-zero-categories") | b.ForceZeroBits
			b.Conv.Settings.ZeroBasic, b.Conv.Settings.ZeroStruct, b.Conv.Settings.ZeroNillable = bits&1 != 0, bits&2 != 0, bits&4 != 0
		}
	}
	if b.coin("zero-at-method-level") || b.ForceZeroBits != 0 {
		bits := b.draw(8, "zero-categories") | b.ForceZeroBits
		zb, zs, zn := bits&1 != 0, bits&2 != 0, bits&4 != 0
		m.Settings.ZeroBasic, m.Settings.ZeroStruct, m.Settings.ZeroNillable = zb, zs, zn
		if zb || zs || zn {
			m.FieldLines++
		}
	}
}

// structPairFor builds a named struct pair whose field settings belong to m.
func (b *Builder) structPairFor(m *model.Method, depth int, recur bool) (*spec.T, *spec.T) {
	id := b.id()
	sn, tn := b.structNames(id)
	s, t := spec.Named(b.A.Key, sn), spec.Named(b.B.Key, tn)
	sd, td := &spec.TypeDecl{Name: sn}, &spec.TypeDecl{Name: tn}
	b.A.Types = append(b.A.Types, sd)
	b.B.Types = append(b.B.Types, td)
	saved := b.stack
	if recur {
		b.stack = append(b.stack, openPair{s, t})
	} else {
		// the pair must not occur below itself: a nested occurrence would call the
		// declared method again (with its default constructor)
		b.stack = nil
	}
	savedTD := b.curTD
	b.curTD = td
	fs, ft := b.fields(depth, m, sd)
	b.curTD = savedTD
	b.stack = saved
	sd.U, td.U = spec.Struct(fs...), spec.Struct(ft...)
	return s, t
}

// UpdateMethod declares an update-signature method over a fresh struct pair.
func (b *Builder) UpdateMethod(name string, depth int) *model.Method {
	m := &model.Method{Name: name, Update: true, Fields: map[string]*model.FieldCfg{}}
	b.zeroCategories(m)
	b.inUpdate = true
	if b.OpenNonComparable && (m.Settings.ZeroStruct || b.Conv.Settings.ZeroStruct) {
		b.comparableOnly = true
		b.label("excluded:F-ZERO-NONCOMPARABLE")
	}
	if b.OpenNilPtrSub && (m.Settings.ZeroNillable || b.Conv.Settings.ZeroNillable) {
		b.noPtrToNamed = true
	}
	ptrSource := b.coin("update-source-pointer")
	// `map . F` in an update method with a pointer source uses the pointer where the
	// struct value is needed (known finding F-UPDATE-PTRSRC-WHOLE)
	b.noDot = ptrSource && b.OpenPtrSrcWhole
	var s, t *spec.T
	if b.chance(15, "update-same-type") {
		// source and target are one struct type (a merge method)
		b.label("update:same-type")
		sd := &spec.TypeDecl{Name: fmt.Sprintf("Merged%d", b.id())}
		b.A.Types = append(b.A.Types, sd)
		all, _ := b.fields(depth, nil, sd)
		var fs []spec.Field
		for _, f := range all {
			// the type serves as target too: unexported fields only where the output package may write them
			if b.O.SamePkg || f.Name == "" || (f.Name[0] >= 'A' && f.Name[0] <= 'Z') {
				fs = append(fs, f)
			}
		}
		sd.U = spec.Struct(fs...)
		s = spec.Named(b.A.Key, sd.Name)
		t = s
	} else {
		s, t = b.structPairFor(m, depth, true)
	}
	b.inUpdate, b.comparableOnly, b.noPtrToNamed, b.noDot = false, false, false, false
	srcT := s
	if ptrSource {
		srcT = spec.Ptr(s)
		b.label("update:pointer-source")
	}
	m.Source, m.Target = srcT, spec.Ptr(t)
	sm := &spec.Method{Name: name, Doc: []string{"update target"}}
	srcSpelled := b.spell(srcT)
	if srcT.K == spec.KPtr {
		srcSpelled = spec.Ptr(b.spell(srcT.Elem))
	}
	ps := []spec.Param{{Name: "source", T: srcSpelled}, {Name: "target", T: spec.Ptr(b.spell(t))}}
	if b.coin("update-target-first") {
		ps[0], ps[1] = ps[1], ps[0]
		b.label("update:target-first")
	}
	sm.Params = ps
	for _, c := range b.Ctx {
		pos := b.draw(len(sm.Params)+1, "ctx-pos")
		np := append([]spec.Param{}, sm.Params[:pos]...)
		np = append(np, spec.Param{Name: c.Name, T: c.T})
		sm.Params = append(np, sm.Params[pos:]...)
		m.Contexts = append(m.Contexts, c.T)
		if !b.ctxRegex {
			sm.Doc = append(sm.Doc, "context "+c.Name)
		}
	}
	if b.AllErr || b.coin("update-returns-error") {
		m.Err = true
		sm.Results = []*spec.T{spec.Named("", "error")}
	}
	b.Conv.Methods = append(b.Conv.Methods, m)
	b.SC.Methods = append(b.SC.Methods, sm)
	b.finishMethod(m, sm)
	return m
}

// DefaultMethod declares a method with a default constructor over a fresh struct pair.
func (b *Builder) DefaultMethod(name string, depth int) *model.Method {
	m := &model.Method{Name: name, Fields: map[string]*model.FieldCfg{}}
	b.zeroCategories(m)
	if b.coin("default-update") {
		if b.coin("default-update-at-method") {
			m.Settings.DefaultUpdate = true
		} else {
			b.Conv.Settings.DefaultUpdate = true
		}
	}
	b.inUpdate = true
	if b.OpenNonComparable && (m.Settings.ZeroStruct || b.Conv.Settings.ZeroStruct) {
		b.comparableOnly = true
		b.label("excluded:F-ZERO-NONCOMPARABLE")
	}
	if b.OpenNilPtrSub && (m.Settings.ZeroNillable || b.Conv.Settings.ZeroNillable) {
		b.noPtrToNamed = true
	}
	b.ptrBoost = b.coin("default-ptr-boost")
	s, t := b.structPairFor(m, max(depth, 2), false)
	b.inUpdate, b.comparableOnly, b.noPtrToNamed, b.ptrBoost = false, false, false, false
	srcT, dstT := s, t
	switch b.draw(4, "default-shape") {
	case 0:
		b.label("default:S->T")
	case 1:
		dstT = spec.Ptr(t)
		b.label("default:S->*T")
	case 2:
		srcT, dstT = spec.Ptr(s), spec.Ptr(t)
		b.label("default:*S->*T")
	default:
		srcT = spec.Ptr(s)
		if b.coin("zeroptr-at-method") {
			m.Settings.ZeroPtr = true
		} else {
			b.Conv.Settings.ZeroPtr = true
		}
		b.label("default:*S->T")
	}
	m.Source, m.Target = srcT, dstT
	// constructor: with or without source, value or pointer result
	var fsrc *spec.T
	if b.coin("default-takes-source") {
		fsrc = srcT
	}
	ft := dstT
	if dstT.K == spec.KPtr && b.coin("default-value-result") {
		ft = dstT.Elem
	}
	f := b.newFunc(fsrc, ft, fsrc != nil)
	m.Default = f
	sm := &spec.Method{Name: name, Doc: []string{"default " + b.funcRef(f.Name)}, Params: []spec.Param{{Name: "source", T: srcT}}, Results: []*spec.T{dstT}}
	for _, c := range b.Ctx {
		pos := b.draw(len(sm.Params)+1, "ctx-pos")
		np := append([]spec.Param{}, sm.Params[:pos]...)
		np = append(np, spec.Param{Name: c.Name, T: c.T})
		sm.Params = append(np, sm.Params[pos:]...)
		m.Contexts = append(m.Contexts, c.T)
		if !b.ctxRegex {
			sm.Doc = append(sm.Doc, "context "+c.Name)
		}
	}
	if b.AllErr {
		m.Err = true
		sm.Results = append(sm.Results, spec.Named("", "error"))
	}
	b.Conv.Methods = append(b.Conv.Methods, m)
	b.SC.Methods = append(b.SC.Methods, sm)
	b.finishMethod(m, sm)
	return m
}
