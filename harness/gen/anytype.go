package gen

import (
	"fmt"

	"pgregory.net/rapid"

	"verif/harness/spec"
)

// AnyGen generates arbitrary valid Go types over the full type grammar (C13).
type AnyGen struct {
	rt          *rapid.T
	Prog        *spec.Program
	P           *spec.Package
	n           int
	AllowUnsafe bool
	named       []*spec.T
	Labels      map[string]int
}

// NewAny creates a generator with one package "p" holding a few generic helpers.
func NewAny(rt *rapid.T) *AnyGen {
	p := &spec.Package{Key: "p", Path: "p", Name: "p"}
	g := &AnyGen{rt: rt, P: p, Labels: map[string]int{}}
	g.Prog = &spec.Program{Module: "example.com/any", Pkgs: []*spec.Package{p}}
	p.Types = append(p.Types,
		&spec.TypeDecl{Name: "Box", Params: []string{"T"}, U: spec.Struct(spec.F("V", &spec.T{K: spec.KParam, Name: "T"}))},
		&spec.TypeDecl{Name: "Chain", Params: []string{"T"}, U: spec.Struct(
			spec.F("Next", spec.Ptr(spec.Generic("p", "Chain", &spec.T{K: spec.KParam, Name: "T"}))),
			spec.F("V", &spec.T{K: spec.KParam, Name: "T"}))},
		&spec.TypeDecl{Name: "Two", Params: []string{"K", "V"}, U: spec.Struct(
			spec.F("K", &spec.T{K: spec.KParam, Name: "K"}), spec.F("V", &spec.T{K: spec.KParam, Name: "V"}))},
		&spec.TypeDecl{Name: "Col", U: spec.Basic("int"), Consts: []spec.Const{{Name: "ColA", Value: "1"}, {Name: "ColB", Value: "2"}}},
		&spec.TypeDecl{Name: "Hue", U: spec.Basic("int"), Consts: []spec.Const{{Name: "HueA", Value: "1"}, {Name: "HueB", Value: "2"}}},
		&spec.TypeDecl{Name: "Txt", U: spec.Basic("string"), Consts: []spec.Const{{Name: "TxtA", Value: `"a"`}}},
		&spec.TypeDecl{Name: "Flt", U: spec.Basic("float64"), Consts: []spec.Const{{Name: "FltA", Value: "1.5"}, {Name: "FltB", Value: "1.5"}}},
	)
	for _, n := range []string{"Col", "Hue", "Txt", "Flt"} {
		g.named = append(g.named, spec.Named("p", n))
	}
	return g
}

func (g *AnyGen) draw(n int, label string) int { return rapid.IntRange(0, n-1).Draw(g.rt, label) }
func (g *AnyGen) label(l string)               { g.Labels[l]++ }

var allBasics = []string{"int", "int8", "int16", "int32", "int64", "uint", "uint8", "uint16", "uint32", "uint64",
	"uintptr", "float32", "float64", "complex64", "complex128", "string", "bool", "byte", "rune"}

func (g *AnyGen) basic() *spec.T {
	n := len(allBasics)
	if g.AllowUnsafe {
		n++
	}
	i := g.draw(n, "basic")
	if i == len(allBasics) {
		g.label("unsafe.Pointer")
		return spec.Basic("unsafe.Pointer")
	}
	if allBasics[i] == "uintptr" {
		g.label("uintptr")
	}
	return spec.Basic(allBasics[i])
}

// Comparable says whether t may be a map key.
func (g *AnyGen) Comparable(t *spec.T) bool { return g.comparable(t, 0) }

func (g *AnyGen) comparable(t *spec.T, d int) bool {
	if d > 8 {
		return false
	}
	u := g.Prog.Underlying(t)
	switch u.K {
	case spec.KBasic, spec.KPtr, spec.KChan:
		return true
	case spec.KIface:
		return true
	case spec.KArray:
		return g.comparable(u.Elem, d+1)
	case spec.KStruct:
		for _, f := range u.Fields {
			if !g.comparable(f.T, d+1) {
				return false
			}
		}
		return true
	}
	return false
}

func (g *AnyGen) key() *spec.T {
	for i := 0; i < 4; i++ {
		t := g.Type(1)
		if g.Comparable(t) {
			return t
		}
	}
	return spec.Basic("string")
}

// Type draws a type of at most the given constructor depth.
func (g *AnyGen) Type(depth int) *spec.T {
	if depth <= 0 {
		switch g.draw(6, "leaf") {
		case 0, 1, 2:
			return g.basic()
		case 3:
			if len(g.named) > 0 {
				return g.named[g.draw(len(g.named), "named-idx")]
			}
			return g.basic()
		case 4:
			return g.exotic(0)
		default:
			return g.basic()
		}
	}
	switch g.draw(14, "ctor") {
	case 0:
		return g.basic()
	case 1:
		return spec.Ptr(g.Type(depth - 1))
	case 2:
		return spec.Slice(g.Type(depth - 1))
	case 3:
		return spec.Array(g.draw(4, "alen"), g.Type(depth-1))
	case 4:
		return spec.Map(g.key(), g.Type(depth-1))
	case 5:
		return g.structLit(depth, nil)
	case 6:
		return g.newNamed(depth)
	case 7:
		if len(g.named) > 0 {
			return g.named[g.draw(len(g.named), "named-idx")]
		}
		return g.newNamed(depth)
	case 8:
		return g.exotic(depth)
	case 9:
		g.label("generic")
		switch g.draw(3, "generic") {
		case 0:
			return spec.Generic("p", "Box", g.Type(depth-1))
		case 1:
			return spec.Generic("p", "Chain", g.Type(depth-1))
		default:
			return spec.Generic("p", "Two", g.Type(depth-1), g.Type(depth-1))
		}
	case 10:
		return spec.Ptr(spec.Ptr(g.Type(depth - 1)))
	default:
		return g.Type(depth - 1)
	}
}

func (g *AnyGen) exotic(depth int) *spec.T {
	g.label("exotic")
	switch g.draw(12, "exotic") {
	case 9:
		// named types of the standard library: structs with unexported fields, named containers
		g.label("std-type")
		return spec.Named("time", "Time")
	case 10:
		g.label("std-type")
		return []*spec.T{spec.Named("math/big", "Int"), spec.Named("net", "IP"), spec.Named("time", "Duration"), spec.Named("net/url", "URL")}[g.draw(4, "std-type")]
	case 11:
		g.label("std-type")
		return []*spec.T{spec.Named("context", "Context"), spec.Named("sync", "Mutex"), spec.Named("encoding/json", "RawMessage"), spec.Named("io", "Reader")}[g.draw(4, "std-iface")]
	case 0:
		return spec.Iface("any")
	case 1:
		return spec.Named("", "error")
	case 2:
		return spec.Func("func()")
	case 3:
		return spec.Func("func(int, ...string) (bool, error)")
	case 4:
		dirs := []string{"chan", "<-chan", "chan<-"}
		inner := spec.Basic("int")
		if depth > 0 && g.draw(2, "chan-nest") == 0 {
			var in *spec.T = spec.Chan(dirs[g.draw(3, "chan-dir-in")], spec.Basic("int"))
			inner = in
		}
		return spec.Chan(dirs[g.draw(3, "chan-dir")], inner)
	case 5:
		return spec.Iface("interface{ M() string }")
	case 6:
		return spec.Iface("interface{ error; Unwrap() error }")
	case 7:
		return spec.Iface("interface{ M(int) (string, error); error }")
	default:
		return spec.Func("func(func(int) string) func() error")
	}
}

func (g *AnyGen) fieldName(i int, exportedOnly bool) string {
	names := []string{"A", "B", "Name", "ID", "Next", "V", "Items", "name", "id", "c", "source", "target", "context", "err"}
	if exportedOnly {
		names = names[:7]
	}
	return names[g.draw(len(names), "fname")] + fmt.Sprint(i)
}

func (g *AnyGen) structLit(depth int, self *spec.T) *spec.T {
	n := g.draw(4, "nfields")
	var fs []spec.Field
	for i := 0; i < n; i++ {
		var ft *spec.T
		if self != nil && g.draw(3, "selfref") == 0 {
			g.label("recursive")
			switch g.draw(4, "self-via") {
			case 0:
				ft = spec.Ptr(self)
			case 1:
				ft = spec.Slice(self)
			case 2:
				ft = spec.Map(spec.Basic("string"), self)
			default:
				ft = spec.Ptr(spec.Ptr(self))
			}
		} else {
			ft = g.Type(depth - 1)
		}
		f := spec.F(g.fieldName(i, false), ft)
		if ft.K == spec.KNamed && ft.Pkg == "p" && len(ft.Args) == 0 && g.embeddable(ft) && g.draw(4, "embed") == 0 && (self == nil || ft.Name != self.Name) {
			f.Embedded = true
			f.Name = ft.Name
			dup := false
			for _, o := range fs {
				if o.Name == f.Name {
					dup = true
				}
			}
			if dup {
				continue
			}
			g.label("embedded")
		}
		fs = append(fs, f)
	}
	return spec.Struct(fs...)
}

// newNamed declares a new named type, often recursive.
func (g *AnyGen) newNamed(depth int) *spec.T {
	g.n++
	name := fmt.Sprintf("N%d", g.n)
	self := spec.Named("p", name)
	d := &spec.TypeDecl{Name: name}
	g.P.Types = append(g.P.Types, d)
	switch g.draw(10, "named-shape") {
	case 8:
		// self-referential named array types
		g.label("recursive")
		g.label("recursive-array")
		switch g.draw(3, "array-self-via") {
		case 0:
			d.U = spec.Array(2, spec.Ptr(self))
		case 1:
			d.U = spec.Array(3, spec.Slice(self))
		default:
			d.U = spec.Array(1, spec.Map(spec.Basic("string"), self))
		}
	case 9:
		// mutually recursive named arrays / slices
		g.label("mutual")
		g.label("recursive-array")
		g.n++
		other := fmt.Sprintf("N%d", g.n)
		od := &spec.TypeDecl{Name: other, U: spec.Array(1, spec.Map(spec.Basic("string"), self))}
		g.P.Types = append(g.P.Types, od)
		d.U = spec.Array(2, spec.Ptr(spec.Named("p", other)))
		g.named = append(g.named, spec.Named("p", other))
	case 0, 1, 2:
		d.U = g.structLit(depth, self)
	case 3:
		g.label("recursive")
		d.U = spec.Slice(self)
	case 4:
		g.label("recursive")
		d.U = spec.Map(spec.Basic("string"), self)
	case 5:
		g.label("recursive")
		d.U = spec.Ptr(self)
	case 6:
		// mutually recursive pair
		g.label("mutual")
		g.n++
		other := fmt.Sprintf("N%d", g.n)
		od := &spec.TypeDecl{Name: other, U: spec.Struct(spec.F("Back", spec.Ptr(self)), spec.F("V", g.Type(0)))}
		g.P.Types = append(g.P.Types, od)
		d.U = spec.Struct(spec.F("Fwd", spec.Slice(spec.Named("p", other))), spec.F("W", g.Type(0)))
		g.named = append(g.named, spec.Named("p", other))
	default:
		d.U = g.Type(depth - 1)
	}
	g.named = append(g.named, self)
	return self
}

// Mutate returns a type similar to t, changed at one place.
func (g *AnyGen) Mutate(t *spec.T) *spec.T {
	switch g.draw(7, "mutate") {
	case 0:
		return spec.Ptr(t)
	case 1:
		if t.K == spec.KPtr {
			return t.Elem
		}
		return spec.Slice(t)
	case 2:
		if t.K == spec.KSlice {
			return spec.Array(2, t.Elem)
		}
		if t.K == spec.KArray {
			return spec.Slice(t.Elem)
		}
	}
	c := *t
	switch t.K {
	case spec.KPtr, spec.KSlice, spec.KArray, spec.KChan:
		c.Elem = g.Mutate(t.Elem)
		return &c
	case spec.KMap:
		c.Elem = g.Mutate(t.Elem)
		return &c
	case spec.KStruct:
		if len(t.Fields) > 0 {
			c.Fields = append([]spec.Field{}, t.Fields...)
			i := g.draw(len(c.Fields), "mut-field")
			if !c.Fields[i].Embedded {
				c.Fields[i].T = g.Mutate(c.Fields[i].T)
			}
			if g.draw(3, "drop-field") == 0 {
				c.Fields = c.Fields[1:]
			}
			return &c
		}
	case spec.KBasic:
		return g.basic()
	}
	return t
}

func (g *AnyGen) embeddable(t *spec.T) bool {
	d := g.Prog.Decl(t)
	if d == nil || d.U == nil {
		return false
	}
	u := g.Prog.Underlying(t)
	return u.K == spec.KStruct || u.K == spec.KBasic && u.Name != "unsafe.Pointer"
}
