package gen

import (
	"fmt"
	"strings"

	"verif/harness/model"
	"verif/harness/spec"
)

// EnumOpts steer the enum program generator (C08).
type EnumOpts struct {
	Negative     bool // inject one defect that must make generation fail
	NoBigConst   bool // stay out of F-ENUM-BIGCONST (float / huge constants with equal values)
	NoUnexported bool // stay out of F-ENUM-UNEXPORTED
	Unexported   bool // may declare unexported source members
}

// EnumInfo describes a generated enum type for the value generator of the driver.
type EnumInfo struct {
	Type   string   `json:"type"`   // reflect type string, e.g. "a.EnumS3"
	Values []string `json:"values"` // Go literals of the members
}

var memberPool = []string{"Red", "Green", "Blue", "Dark", "Light", "None", "Max", "Min", "Alpha", "Beta"}

// EnumProgram adds an enum pair with a declared enum method and a few methods that use
// the pair at nested positions. It returns the enum infos for the driver.
func (b *Builder) EnumProgram(o EnumOpts) []EnumInfo {
	id := b.id()
	kinds := []string{"int", "string", "uint8", "int64", "uint16", "int8", "float64"}
	if o.NoBigConst {
		kinds = kinds[:6]
	}
	ks := kinds[b.draw(len(kinds), "enum-kind-src")]
	kt := kinds[b.draw(len(kinds), "enum-kind-dst")]
	n := 1 + b.draw(7, "enum-n")
	prefS, prefT := fmt.Sprintf("S%d", id), fmt.Sprintf("T%d", id)
	if b.O.SamePkg {
		prefS, prefT = fmt.Sprintf("Src%d", id), fmt.Sprintf("Dst%d", id)
	}
	// goverter matches members by identical name; both enums live in different packages
	// (or carry a type prefix that a transformer strips).
	usePrefix := b.O.SamePkg || b.chance(30, "enum-prefixed")
	name := func(side, m string) string {
		if usePrefix {
			if side == "s" {
				return prefS + m
			}
			return prefT + m
		}
		return "E" + fmt.Sprint(id) + m
	}
	m := &model.Method{Name: fmt.Sprintf("Enum%d", id), Fields: map[string]*model.FieldCfg{}, EnumMap: map[string]string{}}
	var doc []string
	var cs, ct []spec.Const
	tvals := map[string]string{}
	needErr := false
	defect := ""
	if o.Negative {
		defect = []string{"unmapped", "unknown-key", "unknown-target", "dup-disagree", "no-unknown", "error-without-result"}[b.draw(6, "enum-defect")]
	}
	if usePrefix {
		// one transformer maps the source prefix to the target prefix
		m.EnumTransform = append(m.EnumTransform, fmt.Sprintf("^%s(\\w+)$ %s$1", prefS, prefT))
		doc = append(doc, "enum:transform regex "+m.EnumTransform[0])
	}
	valIdx := 1
	byName := 0
	for i := 0; i < n; i++ {
		mem := memberPool[i%len(memberPool)]
		if i >= len(memberPool) {
			mem += fmt.Sprint(i)
		}
		sv := enumLit(ks, valIdx)
		dup := i > 0 && b.chance(20, "enum-dup-value")
		if dup {
			sv = cs[len(cs)-1].Value
			b.label("enum:duplicate-value")
		} else {
			valIdx++
		}
		sname := name("s", mem)
		if o.Unexported && !o.NoUnexported && b.chance(30, "enum-unexported-member") {
			sname = "x" + sname
			b.label("enum:unexported-source-member")
		}
		cs = append(cs, spec.Const{Name: sname, Value: sv})
		switch {
		case dup:
			// same value as the previous member: must agree with its target
			prev := cs[len(cs)-2].Name
			if tgt, ok := m.EnumMap[prev]; ok {
				m.EnumMap[sname] = tgt
				doc = append(doc, fmt.Sprintf("enum:map %s %s", sname, tgt))
			} else {
				// previous maps by name/transformer to its twin; map this one there too
				tgt := name("t", strings.TrimPrefix(strings.TrimPrefix(prev, prefS), "E"+fmt.Sprint(id)))
				if _, ok := tvals[tgt]; ok {
					m.EnumMap[sname] = tgt
					doc = append(doc, fmt.Sprintf("enum:map %s %s", sname, tgt))
				} else {
					m.EnumMap[sname] = "@ignore"
					doc = append(doc, fmt.Sprintf("enum:map %s @ignore", sname))
				}
			}
			if defect == "dup-disagree" {
				defect = "done"
				b.label("defect:enum-dup-disagree")
				m.EnumMap[sname] = "@panic"
				doc[len(doc)-1] = fmt.Sprintf("enum:map %s @panic", sname)
				if prevT, ok := m.EnumMap[cs[len(cs)-2].Name]; ok && prevT == "@panic" {
					m.EnumMap[sname] = "@ignore"
					doc[len(doc)-1] = fmt.Sprintf("enum:map %s @ignore", sname)
				}
			}
		default:
			switch b.draw(9, "enum-member-mode") {
			case 8: // explicit map wins over a transformer / identical-name candidate that also exists
				twin := name("t", mem)
				tv := enumLit(kt, 100+i)
				ct = append(ct, spec.Const{Name: twin, Value: tv})
				tvals[twin] = tv
				byName++
				other := name("t", mem+"Mapped")
				ov := enumLit(kt, 150+i)
				ct = append(ct, spec.Const{Name: other, Value: ov})
				tvals[other] = ov
				m.EnumMap[sname] = other
				doc = append(doc, fmt.Sprintf("enum:map %s %s", sname, other))
				b.label("enum:map-beats-transformer")
			case 0: // renamed target, explicit map
				tname := name("t", mem+"X")
				tv := enumLit(kt, 100+i)
				ct = append(ct, spec.Const{Name: tname, Value: tv})
				tvals[tname] = tv
				m.EnumMap[sname] = tname
				doc = append(doc, fmt.Sprintf("enum:map %s %s", sname, tname))
				b.label("enum:map")
			case 1: // mapped to an action
				act := []string{"@ignore", "@panic", "@error"}[b.draw(3, "enum-action")]
				if act == "@error" {
					needErr = true
				}
				m.EnumMap[sname] = act
				doc = append(doc, fmt.Sprintf("enum:map %s %s", sname, act))
				b.label("enum:map-action")
			default: // same name (or transformer)
				byName++
				tname := name("t", mem)
				tv := enumLit(kt, 100+i)
				ct = append(ct, spec.Const{Name: tname, Value: tv})
				tvals[tname] = tv
			}
		}
	}
	if usePrefix && byName == 0 {
		// the transformer would map nothing, which goverter reports as a configuration error
		m.EnumTransform = nil
		doc = doc[1:]
	}
	// extra target-only member
	extra := name("t", "OnlyTarget")
	ct = append(ct, spec.Const{Name: extra, Value: enumLit(kt, 250)})
	tvals[extra] = enumLit(kt, 250)
	// unknown policy
	unknown := []string{"@ignore", "@panic", "@error", extra}[b.draw(4, "enum-unknown")]
	if unknown == "@error" {
		needErr = true
	}
	switch defect {
	case "unmapped":
		b.label("defect:enum-unmapped-member")
		cs = append(cs, spec.Const{Name: name("s", "Orphan"), Value: enumLit(ks, 200)})
	case "unknown-key":
		b.label("defect:enum-map-unknown-key")
		m.EnumMap[name("s", "Nope")] = "@ignore"
		doc = append(doc, fmt.Sprintf("enum:map %s @ignore", name("s", "Nope")))
	case "unknown-target":
		b.label("defect:enum-map-unknown-target")
		m.EnumMap[cs[0].Name] = name("t", "Nope")
		doc = append(doc, fmt.Sprintf("enum:map %s %s", cs[0].Name, name("t", "Nope")))
	case "no-unknown":
		b.label("defect:enum-unknown-missing")
		unknown = ""
	case "error-without-result":
		b.label("defect:enum-error-without-result")
		unknown = "@error"
		needErr = false
	}
	sn, tn := "Enum"+prefS, "Enum"+prefT
	var spellings []string
	if b.chance(25, "enum-member-via-alias") {
		// a member declared through an alias of the enum type is a member like the others
		spellings = []string{sn + "Alias"}
		cs[b.draw(len(cs), "enum-alias-member")].Via = sn + "Alias"
		b.label("enum:member-declared-via-alias")
	}
	b.A.Types = append(b.A.Types, &spec.TypeDecl{Name: sn, U: spec.Basic(ks), Consts: cs, Spellings: spellings})
	b.B.Types = append(b.B.Types, &spec.TypeDecl{Name: tn, U: spec.Basic(kt), Consts: ct})
	s, t := spec.Named(b.A.Key, sn), spec.Named(b.B.Key, tn)
	m.Source, m.Target = s, t

	// where enum:unknown is written: converter level, or on the enum method
	unknownOnMethod := unknown != "" && (b.coin("enum-unknown-on-method") || !strings.HasPrefix(unknown, "@"))
	if unknown != "" {
		if unknownOnMethod {
			doc = append(doc, "enum:unknown "+unknown)
			m.Settings.EnumUnknown = unknown
		} else {
			b.Conv.Settings.EnumUnknown = unknown
		}
	}
	if defect == "error-without-result" {
		needErr = false
	}
	b.enumNeedErr = b.enumNeedErr || needErr
	sm := &spec.Method{Name: m.Name, Doc: doc, Params: []spec.Param{{Name: "source", T: s}}, Results: []*spec.T{t}}
	b.Conv.Methods = append(b.Conv.Methods, m)
	b.SC.Methods = append(b.SC.Methods, sm)
	b.enumMethods = append(b.enumMethods, m)
	b.pairs = append(b.pairs, namedPair{s, t})
	b.enumPairs = append(b.enumPairs, namedPair{s, t})

	infos := []EnumInfo{{Type: b.A.Name + "." + sn}}
	for _, c := range cs {
		infos[0].Values = append(infos[0].Values, c.Value)
	}
	return infos
}

// EnumSame declares one enum type that is converted to itself at nested positions (the field
// both structs share, elements, map values). The generated methods carry the converter-level
// enum:unknown policy; with setPolicy the converter gets one if it has none (without it a missing
// policy is left for the negative leg: generation must fail).
func (b *Builder) EnumSame(setPolicy bool) []EnumInfo {
	id := b.id()
	kind := []string{"int", "string", "uint8", "int64"}[b.draw(4, "enum-same-kind")]
	n := 2 + b.draw(4, "enum-same-n")
	var cs []spec.Const
	info := EnumInfo{}
	for i := 0; i < n; i++ {
		v := enumLit(kind, i+1)
		cs = append(cs, spec.Const{Name: fmt.Sprintf("Same%d%s", id, memberPool[i%len(memberPool)]), Value: v})
		info.Values = append(info.Values, v)
	}
	tn := fmt.Sprintf("EnumSame%d", id)
	b.A.Types = append(b.A.Types, &spec.TypeDecl{Name: tn, U: spec.Basic(kind), Consts: cs})
	info.Type = b.A.Name + "." + tn
	e := spec.Named(b.A.Key, tn)
	if setPolicy && b.Conv.Settings.EnumUnknown == "" {
		b.Conv.Settings.EnumUnknown = []string{"@ignore", "@panic", "@error"}[b.draw(3, "enum-same-unknown")]
	}
	if b.Conv.Settings.EnumUnknown == "@error" {
		b.enumNeedErr = true
	}
	b.enumPairs = append(b.enumPairs, namedPair{e, e})
	b.label("enum:same-type-both-sides")
	return []EnumInfo{info}
}

func enumLit(kind string, i int) string {
	switch kind {
	case "string":
		return fmt.Sprintf("%q", fmt.Sprintf("v%d", i))
	case "float64":
		return fmt.Sprintf("%d.5", i)
	case "int8":
		return fmt.Sprint(i % 120)
	case "uint8":
		return fmt.Sprint(i % 250)
	}
	return fmt.Sprint(i)
}

// EnumWrappers declares methods that reach the enum pairs at nested positions.
func (b *Builder) EnumWrappers() {
	for i, ep := range b.enumPairs {
		shapes := []string{"field", "slice", "mapvalue", "ptr", "toptr"}
		k := 1 + b.draw(3, "enum-nwrappers")
		for j := 0; j < k; j++ {
			var s, t *spec.T
			shape := shapes[b.draw(len(shapes), "enum-wrapper")]
			b.label("enum-position:" + shape)
			switch shape {
			case "field":
				s, t = b.namedStructWith(ep.s, ep.t)
			case "slice":
				s, t = spec.Slice(ep.s), spec.Slice(ep.t)
			case "mapvalue":
				s, t = spec.Map(spec.Basic("string"), ep.s), spec.Map(spec.Basic("string"), ep.t)
			case "ptr":
				s, t = spec.Ptr(ep.s), spec.Ptr(ep.t)
			default:
				s, t = ep.s, spec.Ptr(ep.t)
			}
			dup := false
			for _, m := range b.Conv.Methods {
				if m.Source.Key_() == s.Key_() && m.Target.Key_() == t.Key_() {
					dup = true
				}
			}
			if dup {
				continue
			}
			b.declare(fmt.Sprintf("W%d_%d", i, j), s, t)
		}
	}
}

// namedStructWith declares a struct pair holding the given pair in a field next to others.
func (b *Builder) namedStructWith(s, t *spec.T) (*spec.T, *spec.T) {
	id := b.id()
	sn, tn := fmt.Sprintf("S%d", id), fmt.Sprintf("T%d", id)
	if b.O.SamePkg {
		sn, tn = fmt.Sprintf("SrcS%d", id), fmt.Sprintf("DstT%d", id)
	}
	ls, lt := b.leafBasic()
	b.A.Types = append(b.A.Types, &spec.TypeDecl{Name: sn, U: spec.Struct(spec.F("E", s), spec.F("Other", ls), spec.F("List", spec.Slice(s)))})
	b.B.Types = append(b.B.Types, &spec.TypeDecl{Name: tn, U: spec.Struct(spec.F("E", t), spec.F("Other", lt), spec.F("List", spec.Slice(t)))})
	return spec.Named(b.A.Key, sn), spec.Named(b.B.Key, tn)
}

// FinishEnums makes every declared method return error if an enum action needs it.
func (b *Builder) FinishEnums() {
	if !b.enumNeedErr {
		return
	}
	for i, m := range b.Conv.Methods {
		if m.Err {
			continue
		}
		m.Err = true
		b.SC.Methods[i].Results = append(b.SC.Methods[i].Results, spec.Named("", "error"))
	}
}
