// Package drvsrc carries the sources copied into scratch modules.
package drvsrc

import _ "embed"

// VSup is the driver support library (package vsup).
//
//go:embed vsup.go.txt
var VSup string

// Mark is the helper package used by custom functions of generated programs.
//
//go:embed mark.go.txt
var Mark string

// VWrap is the recording wrapErrorsUsing package.
//
//go:embed vwrap.go.txt
var VWrap string
