// Package drvsrc carries the sources copied into scratch modules.
package drvsrc

import _ "embed"

// VSup is the driver support library (package vsup).
//
//go:embed vsup.go.txt
var VSup string
