package vh

import (
	"bufio"
	"encoding/json"
	"fmt"
	"os"
	"path/filepath"
	"sort"
	"strings"
	"time"

	"verif/harness/drvsrc"
	"verif/harness/model"
	"verif/harness/spec"
)

const scratchGoSum = `pgregory.net/rapid v1.3.0 h1:vBvO0VSqti75J1jjYqpgPNBLKMd1+gxa9fYo7vk/Exc=
pgregory.net/rapid v1.3.0/go.mod h1:dPlE4OBBxgXPqkP79flB6sJL1dx5azpI7HQ9MY9Z7uk=
`

// MethodInfo mirrors vsup.MethodInfo.
type MethodInfo struct {
	Name    string                 `json:"name"`
	Top     *model.Plan            `json:"top"`
	Subs    map[string]*model.Plan `json:"subs,omitempty"`
	Source  int                    `json:"source"`
	Target  int                    `json:"target"`
	Context []int                  `json:"context,omitempty"`
	Err     bool                   `json:"err,omitempty"`
	Update  bool                   `json:"update,omitempty"`
	Default *DefaultInfo           `json:"default,omitempty"`
	Extra   map[string]any         `json:"extra,omitempty"`
}

// DefaultInfo mirrors vsup.DefaultInfo.
type DefaultInfo struct {
	Func      string `json:"func"`
	Update    bool   `json:"update,omitempty"`
	HasSource bool   `json:"hasSource,omitempty"`
}

// DriverManifest mirrors vsup.Manifest.
type DriverManifest struct {
	Mode     string        `json:"mode"`
	Values   int           `json:"values"`
	Methods  []*MethodInfo `json:"methods"`
	Distinct bool          `json:"distinct,omitempty"`
	Sharing  bool          `json:"sharing,omitempty"`
	Races    bool          `json:"races,omitempty"`
	Wrap     string        `json:"wrap,omitempty"` // "" | errors | using
	Enums    map[string][]string `json:"enums,omitempty"`
}

// RunSpec describes one generate-compile-execute case.
type RunSpec struct {
	Prog     *spec.Program
	Conv     *model.Conv
	Manifest DriverManifest
	Patterns []string
	Global   []string
	Funcs    []string // custom functions of the converter package offered to the reference
	Impl     string   // name of the generated struct (default ConverterImpl)
	Format   string   // struct | function | variable
	Race     bool
	Seed     uint64
	// Extra files written after generation (conformance files and the like)
	Extra map[string]string
}

// DriverStat is one VSUP line.
type DriverStat struct {
	Method     string         `json:"method"`
	Evals      int            `json:"evals"`
	Nontrivial []string       `json:"nontrivial"`
	Labels     map[string]int `json:"labels"`
	Fail       *struct {
		Msg   string `json:"msg"`
		Value string `json:"value"`
	} `json:"fail,omitempty"`
	Samples []string `json:"samples,omitempty"`
}

// RunOutcome is what happened.
type RunOutcome struct {
	Gen      GenResult
	Files    map[string]string // emitted files relative to the module root
	BuildErr string            // compile error of the module with the emitted files (goverter's fault if the input compiled before)
	Infra    string            // harness problem
	Stats    []DriverStat
	Race     string // race detector report
	Output   string
	Dir      string
}

func (s *Session) goRun(dir string, timeout time.Duration, args ...string) CmdResult {
	return RunCmd(dir, GoEnv(), timeout, "go", args...)
}

// PrepareModule writes the program into a fresh scratch module that can import rapid.
func (s *Session) PrepareModule(prog *spec.Program) (string, error) {
	dir := s.Scratch()
	files := prog.Files()
	files["go.mod"] = "module " + prog.Module + "\n\ngo 1.23\n\nrequire pgregory.net/rapid v1.3.0\n"
	files["go.sum"] = scratchGoSum
	files["vsup/vsup.go"] = strings.ReplaceAll(drvsrc.VSup, "MODULE/", prog.Module+"/")
	files["mark/mark.go"] = drvsrc.Mark
	files["vwrap/vwrap.go"] = drvsrc.VWrap
	return dir, WriteTree(dir, files)
}

// GenerateInto runs goverter on the module and writes the emitted files.
func (s *Session) GenerateInto(dir string, patterns, global []string) (GenResult, map[string]string, error) {
	res := Generate(GenOpts{Dir: dir, Patterns: patterns, Global: global})
	if !res.OK() {
		return res, nil, nil
	}
	rel := RelFiles(dir, res.Files)
	for name, content := range rel {
		p := filepath.Join(dir, name)
		if err := os.MkdirAll(filepath.Dir(p), 0o755); err != nil {
			return res, rel, err
		}
		if err := os.WriteFile(p, []byte(content), 0o644); err != nil {
			return res, rel, err
		}
	}
	return res, rel, nil
}

func driverSource(rs *RunSpec, manifest string) string {
	prog := rs.Prog
	outImport := prog.Module + "/" + rs.Conv.OutPkg
	convImport := prog.ImportPath(rs.Conv.ConvPkg)
	impl := rs.Impl
	if impl == "" {
		impl = "ConverterImpl"
	}
	var b strings.Builder
	b.WriteString("package drv\n\nimport (\n\t\"testing\"\n\n")
	fmt.Fprintf(&b, "\tgen %q\n", outImport)
	if len(rs.Funcs) > 0 || rs.Format == "variable" {
		if convImport != outImport {
			fmt.Fprintf(&b, "\tconv %q\n", convImport)
		}
	}
	fmt.Fprintf(&b, "\t%q\n)\n\n", prog.Module+"/vsup")
	convAlias := "conv"
	if convImport == outImport {
		convAlias = "gen"
	}
	fmt.Fprintf(&b, "const manifest = %q\n\n", manifest)
	b.WriteString("func TestDriver(t *testing.T) {\n")
	switch rs.Format {
	case "function", "variable":
		b.WriteString("\tvar impl any\n")
	default:
		fmt.Fprintf(&b, "\timpl := &gen.%s{}\n", impl)
	}
	b.WriteString("\tmethods := map[string]any{\n")
	for _, m := range rs.Manifest.Methods {
		switch rs.Format {
		case "function":
			fmt.Fprintf(&b, "\t\t%q: gen.%s,\n", m.Name, m.Name)
		case "variable":
			fmt.Fprintf(&b, "\t\t%q: %s.%s,\n", m.Name, convAlias, m.Name)
		default:
			fmt.Fprintf(&b, "\t\t%q: impl.%s,\n", m.Name, m.Name)
		}
	}
	b.WriteString("\t}\n\tfuncs := map[string]any{\n")
	for _, f := range rs.Funcs {
		fmt.Fprintf(&b, "\t\t%q: %s.%s,\n", f, convAlias, f)
	}
	b.WriteString("\t}\n\tvsup.Run(t, manifest, methods, funcs, impl)\n}\n")
	return b.String()
}

// Execute generates, compiles and runs the driver.
func (s *Session) Execute(rs *RunSpec) *RunOutcome {
	out := &RunOutcome{}
	dir, err := s.PrepareModule(rs.Prog)
	out.Dir = dir
	if err != nil {
		out.Infra = err.Error()
		return out
	}
	gen, files, err := s.GenerateInto(dir, rs.Patterns, rs.Global)
	out.Gen = gen
	out.Files = files
	if err != nil {
		out.Infra = err.Error()
		return out
	}
	if !gen.OK() {
		return out
	}
	for name, content := range rs.Extra {
		p := filepath.Join(dir, name)
		_ = os.MkdirAll(filepath.Dir(p), 0o755)
		_ = os.WriteFile(p, []byte(content), 0o644)
	}
	man, _ := json.Marshal(rs.Manifest)
	if err := WriteTree(dir, map[string]string{"drv/drv_test.go": driverSource(rs, string(man))}); err != nil {
		out.Infra = err.Error()
		return out
	}
	args := []string{"test", "-c", "-o", "drv.test"}
	if rs.Race {
		args = append(args, "-race")
	}
	args = append(args, "./drv")
	build := s.goRun(dir, 10*time.Minute, args...)
	if build.TimedOut || build.Err != nil {
		out.Infra = "go test -c: timeout or exec error " + fmt.Sprint(build.Err)
		return out
	}
	if build.Exit != 0 {
		out.BuildErr = build.Stdout + build.Stderr
		return out
	}
	seed := rs.Seed | 1
	run := RunCmd(dir, GoEnv(), 10*time.Minute, filepath.Join(dir, "drv.test"), "-test.run", "^TestDriver$", "-test.count=1",
		fmt.Sprintf("-rapid.checks=%d", rs.Manifest.Values), fmt.Sprintf("-rapid.seed=%d", seed), "-rapid.nofailfile", "-rapid.shrinktime=5s", "-test.timeout=9m")
	out.Output = run.Stdout + run.Stderr
	if run.TimedOut {
		out.Infra = "driver timed out"
		return out
	}
	sc := bufio.NewScanner(strings.NewReader(run.Stdout))
	sc.Buffer(make([]byte, 1<<20), 1<<26)
	for sc.Scan() {
		line := sc.Text()
		if strings.HasPrefix(line, "VSUP: ") {
			var st DriverStat
			if err := json.Unmarshal([]byte(strings.TrimPrefix(line, "VSUP: ")), &st); err == nil {
				out.Stats = append(out.Stats, st)
			}
		}
	}
	if strings.Contains(out.Output, "WARNING: DATA RACE") {
		i := strings.Index(out.Output, "WARNING: DATA RACE")
		out.Race = FirstLines(out.Output[i:], 30)
	}
	if strings.Contains(out.Output, "VSUP-INFRA") {
		i := strings.Index(out.Output, "VSUP-INFRA")
		out.Infra = FirstLines(out.Output[i:], 5)
	}
	if len(out.Stats) == 0 && out.Infra == "" {
		out.Infra = "driver produced no statistics:\n" + FirstLines(out.Output, 30)
	}
	sort.Slice(out.Stats, func(i, j int) bool { return out.Stats[i].Method < out.Stats[j].Method })
	return out
}

// MethodInfos plans every declared method of the converter for the driver.
func MethodInfos(c *model.Conv) ([]*MethodInfo, *model.Reject) {
	var out []*MethodInfo
	for _, m := range c.Methods {
		res, rej := c.Plan(m)
		if rej != nil {
			rej.Msg = m.Name + ": " + rej.Msg
			return nil, rej
		}
		if m.NoExec {
			continue
		}
		mi := &MethodInfo{Name: m.Name, Top: res.Top, Subs: res.Subs, Source: 0, Target: -1, Err: m.Err, Update: m.Update}
		if m.Default != nil {
			mi.Default = &DefaultInfo{Func: m.Default.Name, Update: m.Settings.DefaultUpdate, HasSource: m.Default.Source != nil}
		}
		for i, r := range m.Roles {
			switch r {
			case "source":
				mi.Source = i
			case "context":
				mi.Context = append(mi.Context, i)
			case "target":
				mi.Target = i
			}
		}
		out = append(out, mi)
	}
	return out, nil
}

// CompileOnly generates and builds the whole module (no driver). extra files are
// written after generation.
func (s *Session) CompileOnly(rs *RunSpec, extra func(files map[string]string) map[string]string) *RunOutcome {
	out := &RunOutcome{}
	dir, err := s.PrepareModule(rs.Prog)
	out.Dir = dir
	if err != nil {
		out.Infra = err.Error()
		return out
	}
	// the input must compile before goverter runs
	gen, files, err := s.GenerateInto(dir, rs.Patterns, rs.Global)
	out.Gen = gen
	out.Files = files
	if err != nil {
		out.Infra = err.Error()
		return out
	}
	if !gen.OK() {
		return out
	}
	if extra != nil {
		if err := WriteTree(dir, extra(files)); err != nil {
			out.Infra = err.Error()
			return out
		}
	}
	build := s.goRun(dir, 10*time.Minute, "build", "./...")
	if build.TimedOut || build.Err != nil {
		out.Infra = "go build: timeout or exec error " + fmt.Sprint(build.Err)
		return out
	}
	if build.Exit != 0 {
		out.BuildErr = build.Stdout + build.Stderr
	}
	return out
}
