package vh

import (
	"crypto/sha256"
	"encoding/hex"
	"io/fs"
	"os"
	"path/filepath"
	"sort"
	"strings"
	"time"
)

// SnapEntry describes one file system object.
type SnapEntry struct {
	Mode  fs.FileMode
	Hash  string
	MTime int64
	Size  int64
	Dir   bool
}

// Snap is a directory snapshot: relative path -> entry.
type Snap map[string]SnapEntry

// Snapshot walks root.
func Snapshot(root string) (Snap, error) {
	out := Snap{}
	err := filepath.WalkDir(root, func(p string, d fs.DirEntry, err error) error {
		if err != nil {
			return err
		}
		rel, _ := filepath.Rel(root, p)
		if rel == "." {
			return nil
		}
		info, err := d.Info()
		if err != nil {
			return err
		}
		e := SnapEntry{Mode: info.Mode(), MTime: info.ModTime().UnixNano(), Size: info.Size(), Dir: d.IsDir()}
		if !d.IsDir() && info.Mode().IsRegular() {
			raw, err := os.ReadFile(p)
			if err != nil {
				return err
			}
			sum := sha256.Sum256(raw)
			e.Hash = hex.EncodeToString(sum[:])
		}
		out[rel] = e
		return nil
	})
	return out, err
}

// Diff compares two snapshots. Directory mtimes are ignored (they change when entries
// are added, which is reported through the entries themselves).
func (a Snap) Diff(b Snap) (created, modified, removed []string) {
	for p, eb := range b {
		ea, ok := a[p]
		switch {
		case !ok:
			created = append(created, p)
		case ea.Dir != eb.Dir || ea.Mode != eb.Mode || ea.Hash != eb.Hash || (!ea.Dir && ea.MTime != eb.MTime) || ea.Size != eb.Size && !ea.Dir:
			modified = append(modified, p)
		}
	}
	for p := range a {
		if _, ok := b[p]; !ok {
			removed = append(removed, p)
		}
	}
	sort.Strings(created)
	sort.Strings(modified)
	sort.Strings(removed)
	return
}

// RunCLI runs the goverter binary built from the tree with umask 0 in dir.
func (s *Session) RunCLI(dir string, args ...string) CmdResult {
	sh := []string{"-c", `umask 000; exec "$0" "$@"`, s.CLI}
	sh = append(sh, args...)
	env := []string{}
	for _, kv := range os.Environ() {
		k := strings.SplitN(kv, "=", 2)[0]
		switch k {
		case "GOFLAGS", "GOPROXY", "GOSUMDB", "GOTOOLCHAIN", "GOWORK", "PWD":
			continue
		}
		env = append(env, kv)
	}
	// the logical working directory, as a shell would hand it on (matters when dir is a symbolic link)
	env = append(env, "PWD="+dir)
	// no -mod=mod here: `go list` must never write go.sum into the scratch tree
	env = append(env, "GOFLAGS=", "GOPROXY=off", "GOSUMDB=off", "GOTOOLCHAIN=local", "GOWORK=off")
	return RunCmd(dir, env, 5*time.Minute, "/bin/sh", sh...)
}
