// Package vh is the shared runtime of the verification harness: per-shard
// sessions (evidence counters, replay files, known findings), scratch
// directories and helpers to run goverter in-process or as a CLI.
package vh

import (
	"encoding/json"
	"fmt"
	"hash/fnv"
	"os"
	"path/filepath"
	"regexp"
	"sort"
	"strconv"
	"strings"
	"sync"
	"testing"

	"pgregory.net/rapid"
)

// Finding is one entry of /verif/known_findings.json.
type Finding struct {
	ID       string `json:"id"`
	Property string `json:"property"`
	Status   string `json:"status"` // open | fixed
	What     string `json:"what"`
	Replay   string `json:"replay,omitempty"`
	Commit   string `json:"commit,omitempty"`
	Match    struct {
		Feature string `json:"feature"`
		Failure string `json:"failure"`
	} `json:"match"`
	re *regexp.Regexp
}

// Session collects what one shard of one check explored.
type Session struct {
	ID        string
	Tier      string
	Seed      int64
	Shard     int
	NShards   int
	OutPath   string
	ReplayDir string
	CLI       string
	Root      string
	VerifDir  string
	ReplayIn  string

	mu         sync.Mutex
	evals      int64
	discarded  int64
	nontriv    map[uint64]struct{}
	first      []any
	low        []lowSample
	labels     map[string]int64
	excluded   map[string]int64
	violations map[string]string
	known      map[string]string
	findings   []*Finding
	extra      map[string]any
	infra      []string
	scratchN   int
	probing    *[]string
}

type lowSample struct {
	h uint64
	v any
}

func envInt(name string, def int64) int64 {
	v := os.Getenv(name)
	if v == "" {
		return def
	}
	n, err := strconv.ParseInt(v, 10, 64)
	if err != nil {
		return def
	}
	return n
}

// Begin opens the session for property id from the environment set by ./check.
func Begin(t testing.TB, id string) *Session {
	s := &Session{
		ID:         id,
		Tier:       os.Getenv("VERIF_TIER"),
		Seed:       envInt("VERIF_SEED", 1),
		Shard:      int(envInt("VERIF_SHARD", 0)),
		NShards:    int(envInt("VERIF_NSHARDS", 1)),
		OutPath:    os.Getenv("VERIF_OUT"),
		ReplayDir:  os.Getenv("VERIF_REPLAY_DIR"),
		CLI:        os.Getenv("VERIF_CLI"),
		VerifDir:   os.Getenv("VERIF_DIR"),
		ReplayIn:   os.Getenv("VERIF_REPLAY"),
		nontriv:    map[uint64]struct{}{},
		labels:     map[string]int64{},
		excluded:   map[string]int64{},
		violations: map[string]string{},
		known:      map[string]string{},
		extra:      map[string]any{},
	}
	if s.Tier == "" {
		s.Tier = "quick"
	}
	if s.VerifDir == "" {
		s.VerifDir = "/verif"
	}
	if s.ReplayDir == "" {
		s.ReplayDir = filepath.Join(s.VerifDir, "replays")
	}
	root, err := os.MkdirTemp("", fmt.Sprintf("verif-%s-%d-", id, s.Shard))
	if err != nil {
		t.Fatalf("INFRA: cannot create scratch root: %v", err)
	}
	s.Root = root
	s.loadFindings(t)
	t.Cleanup(func() { s.Close() })
	return s
}

func (s *Session) loadFindings(t testing.TB) {
	raw, err := os.ReadFile(filepath.Join(s.VerifDir, "known_findings.json"))
	if err != nil {
		return
	}
	var doc struct {
		Findings []*Finding `json:"findings"`
	}
	if err := json.Unmarshal(raw, &doc); err != nil {
		t.Fatalf("INFRA: known_findings.json: %v", err)
	}
	for _, f := range doc.Findings {
		if f.Match.Failure != "" {
			f.re = regexp.MustCompile(f.Match.Failure)
		}
		s.findings = append(s.findings, f)
	}
}

// Quick reports whether the quick tier is running.
func (s *Session) Quick() bool { return s.Tier != "thorough" }

// Pick returns q in the quick tier and th in the thorough tier.
func (s *Session) Pick(q, th int) int {
	if s.Quick() {
		return q
	}
	return th
}

// Open reports whether finding id is listed as open (for this or any property).
func (s *Session) Open(id string) bool {
	for _, f := range s.findings {
		if f.ID == id && f.Status == "open" {
			return true
		}
	}
	return false
}

// MatchKnown returns the open finding of this property whose feature equals one of
// features and whose failure pattern matches failure; nil if there is none.
func (s *Session) MatchKnown(features []string, failure string) *Finding {
	for _, f := range s.findings {
		if f.Status != "open" || f.Property != s.ID {
			continue
		}
		ok := false
		for _, ft := range features {
			if ft == f.Match.Feature {
				ok = true
			}
		}
		if !ok {
			continue
		}
		if f.re != nil && !f.re.MatchString(failure) {
			continue
		}
		return f
	}
	return nil
}

// FindingsOf lists the findings recorded for this property.
func (s *Session) FindingsOf() []*Finding {
	var out []*Finding
	for _, f := range s.findings {
		if f.Property == s.ID {
			out = append(out, f)
		}
	}
	return out
}

// Known records that an open finding was observed to reproduce.
func (s *Session) Known(f *Finding) {
	s.mu.Lock()
	s.known[f.ID] = f.What
	s.mu.Unlock()
}

// Eval counts n executed cases.
func (s *Session) Eval(n int) {
	s.mu.Lock()
	s.evals += int64(n)
	s.mu.Unlock()
}

// Discard counts n cases dropped because a precondition outside the property failed.
func (s *Session) Discard(n int) {
	s.mu.Lock()
	s.discarded += int64(n)
	s.mu.Unlock()
}

// Label counts a generator class.
func (s *Session) Label(name string) { s.LabelN(name, 1) }

func (s *Session) LabelN(name string, n int) {
	s.mu.Lock()
	s.labels[name] += int64(n)
	s.mu.Unlock()
}

// Excluded counts a case rewritten to stay out of a known finding.
func (s *Session) Excluded(finding string) {
	s.mu.Lock()
	s.excluded[finding]++
	s.mu.Unlock()
}

// Extra stores an additional coverage key.
func (s *Session) Extra(key string, v any) {
	s.mu.Lock()
	s.extra[key] = v
	s.mu.Unlock()
}

// Hash64 hashes a canonical description of a case.
func Hash64(parts ...string) uint64 {
	h := fnv.New64a()
	for _, p := range parts {
		h.Write([]byte(p))
		h.Write([]byte{0})
	}
	return h.Sum64()
}

// Nontrivial records a distinct non-trivial case by its canonical key; sample is
// kept when it is among the first three or the two smallest hashes.
func (s *Session) Nontrivial(key string, sample any) {
	h := Hash64(key)
	s.mu.Lock()
	defer s.mu.Unlock()
	if _, ok := s.nontriv[h]; ok {
		return
	}
	s.nontriv[h] = struct{}{}
	if sample == nil {
		return
	}
	if len(s.first) < 3 {
		s.first = append(s.first, sample)
		return
	}
	s.low = append(s.low, lowSample{h, sample})
	sort.Slice(s.low, func(i, j int) bool { return s.low[i].h < s.low[j].h })
	if len(s.low) > 2 {
		s.low = s.low[:2]
	}
}

// Infra records an infrastructure problem (exit status 2 of the check).
func (s *Session) Infra(msg string) {
	s.mu.Lock()
	s.infra = append(s.infra, msg)
	s.mu.Unlock()
}

type replayDoc struct {
	Property string          `json:"property"`
	Tag      string          `json:"tag"`
	Message  string          `json:"message"`
	Case     json.RawMessage `json:"case"`
}

// Violation writes the replay file for a failing case and records it. The file
// name is stable per shard, so that the last failing evaluation (rapid's shrunk
// minimum) is what remains.
func (s *Session) Violation(tag string, c any, msg string) string {
	s.mu.Lock()
	if s.probing != nil {
		*s.probing = append(*s.probing, msg)
		s.mu.Unlock()
		return "(probe)"
	}
	s.mu.Unlock()
	raw, err := json.MarshalIndent(c, "", " ")
	if err != nil {
		raw = []byte(fmt.Sprintf("%q", fmt.Sprint(c)))
	}
	doc, _ := json.MarshalIndent(replayDoc{Property: s.ID, Tag: tag, Message: msg, Case: raw}, "", " ")
	_ = os.MkdirAll(s.ReplayDir, 0o755)
	name := fmt.Sprintf("%s-%s-seed%d-shard%d.json", s.ID, tag, s.Seed, s.Shard)
	if os.Getenv("VERIF_FUZZ") != "" {
		// native fuzzing: several worker processes share the environment
		name = fmt.Sprintf("%s-%s-fuzz-pid%d.json", s.ID, tag, os.Getpid())
	}
	path := filepath.Join(s.ReplayDir, name)
	if s.ReplayIn != "" {
		path = s.ReplayIn
	} else if err := os.WriteFile(path, doc, 0o644); err != nil {
		s.Infra("cannot write replay: " + err.Error())
	}
	s.mu.Lock()
	s.violations[path] = msg
	s.mu.Unlock()
	return path
}

// FailRapid records a violation and fails the current rapid case.
func (s *Session) FailRapid(rt *rapid.T, tag string, c any, format string, args ...any) {
	msg := fmt.Sprintf(format, args...)
	path := s.Violation(tag, c, msg)
	rt.Fatalf("violation %s (replay %s): %s", s.ID, path, msg)
}

// LoadReplay decodes the case of a replay file into v.
func (s *Session) LoadReplay(v any) error {
	raw, err := os.ReadFile(s.ReplayIn)
	if err != nil {
		return err
	}
	var doc replayDoc
	if err := json.Unmarshal(raw, &doc); err != nil {
		return err
	}
	return json.Unmarshal(doc.Case, v)
}

// ReplayTag returns the tag stored in the replay file being replayed.
func (s *Session) ReplayTag() string {
	raw, err := os.ReadFile(s.ReplayIn)
	if err != nil {
		return ""
	}
	var doc replayDoc
	if err := json.Unmarshal(raw, &doc); err != nil {
		return ""
	}
	return doc.Tag
}

// Scratch returns a fresh empty directory below the shard's scratch root.
func (s *Session) Scratch() string {
	s.mu.Lock()
	s.scratchN++
	n := s.scratchN
	s.mu.Unlock()
	dir := filepath.Join(s.Root, fmt.Sprintf("m%d", n))
	_ = os.RemoveAll(dir)
	_ = os.MkdirAll(dir, 0o755)
	return dir
}

// Close writes the shard result and removes the scratch root.
func (s *Session) Close() {
	if os.Getenv("VERIF_KEEP") == "" {
		_ = os.RemoveAll(s.Root)
	}
	if s.OutPath == "" {
		return
	}
	s.mu.Lock()
	defer s.mu.Unlock()
	hashes := make([]string, 0, len(s.nontriv))
	for h := range s.nontriv {
		hashes = append(hashes, strconv.FormatUint(h, 16))
	}
	sort.Strings(hashes)
	samples := append([]any{}, s.first...)
	for _, l := range s.low {
		samples = append(samples, l.v)
	}
	out := map[string]any{
		"property":    s.ID,
		"shard":       s.Shard,
		"evaluations": s.evals,
		"discarded":   s.discarded,
		"nontrivial":  hashes,
		"samples":     samples,
		"labels":      s.labels,
		"excluded":    s.excluded,
		"violations":  s.violations,
		"known":       s.known,
		"extra":       s.extra,
		"infra":       s.infra,
	}
	raw, _ := json.Marshal(out)
	_ = os.WriteFile(s.OutPath, raw, 0o644)
}

// FailT records a violation found outside rapid (enumerated cases). Only the first
// failure per tag writes the replay file; all are counted.
func (s *Session) FailT(t testing.TB, tag string, c any, msg string) {
	s.mu.Lock()
	probing := s.probing != nil
	var n int64
	if !probing {
		n = s.labels["violations:"+tag]
		s.labels["violations:"+tag]++
	}
	s.mu.Unlock()
	if probing {
		s.Violation(tag, c, msg)
		return
	}
	if n == 0 {
		path := s.Violation(tag, c, msg)
		t.Errorf("violation %s (replay %s): %s", s.ID, path, msg)
	}
}

// ProbeFindings replays the committed reproduction of every finding recorded for
// this property. run must evaluate the case stored in the file through the same
// code path as a generated case. An open finding that still reproduces is reported
// as KNOWN-FINDING; a fixed finding that reproduces again is a violation.
func (s *Session) ProbeFindings(t testing.TB, run func(f *Finding, path string)) {
	for _, f := range s.FindingsOf() {
		if f.Replay == "" {
			continue
		}
		path := filepath.Join(s.VerifDir, f.Replay)
		if _, err := os.Stat(path); err != nil {
			s.Infra("finding replay missing: " + path)
			continue
		}
		if s.Shard != 0 {
			continue
		}
		var msgs []string
		s.mu.Lock()
		s.probing = &msgs
		saved := s.ReplayIn
		s.ReplayIn = path
		s.mu.Unlock()
		run(f, path)
		s.mu.Lock()
		s.probing = nil
		s.ReplayIn = saved
		s.mu.Unlock()
		s.Label("finding-probe:" + f.ID)
		switch {
		case len(msgs) > 0 && f.Status == "open":
			if f.re != nil && !f.re.MatchString(strings.Join(msgs, "\n")) {
				s.ReplayIn = path
				p := s.Violation("finding", map[string]string{"finding": f.ID, "replay": f.Replay}, "open finding "+f.ID+" fails differently than recorded: "+msgs[0])
				s.ReplayIn = saved
				t.Errorf("violation %s (replay %s)", s.ID, p)
				continue
			}
			s.Known(f)
		case len(msgs) > 0 && f.Status == "fixed":
			s.mu.Lock()
			s.violations[path] = "fixed finding " + f.ID + " is back: " + msgs[0]
			s.mu.Unlock()
			t.Errorf("violation %s (replay %s): fixed finding %s is back: %s", s.ID, path, f.ID, msgs[0])
		case len(msgs) == 0 && f.Status == "open":
			s.Label("finding-not-reproduced:" + f.ID)
		}
	}
}


// Journal records the case about to be evaluated, so that a crash of the whole
// process (stack overflow, fatal error) can be attributed to an input.
func (s *Session) Journal(c any) {
	if s.OutPath == "" {
		return
	}
	raw, err := json.Marshal(c)
	if err != nil {
		return
	}
	_ = os.WriteFile(s.OutPath+".journal", raw, 0o644)
}

// NontrivialHash records a non-trivial case by a hash computed elsewhere (driver side).
func (s *Session) NontrivialHash(hex string) {
	h, err := strconv.ParseUint(hex, 16, 64)
	if err != nil {
		return
	}
	s.mu.Lock()
	s.nontriv[h] = struct{}{}
	s.mu.Unlock()
}

// Sample keeps a few sample cases.
func (s *Session) Sample(v any) {
	s.mu.Lock()
	if len(s.first) < 3 {
		s.first = append(s.first, v)
	} else if len(s.low) < 2 {
		s.low = append(s.low, lowSample{0, v})
	}
	s.mu.Unlock()
}

// Probing reports whether a finding probe is running.
func (s *Session) Probing() bool {
	s.mu.Lock()
	defer s.mu.Unlock()
	return s.probing != nil
}
