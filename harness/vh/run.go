package vh

import (
	"bytes"
	"context"
	"errors"
	"fmt"
	"os"
	"os/exec"
	"path/filepath"
	"runtime/debug"
	"sort"
	"strings"
	"time"

	"github.com/jmattheis/goverter"
	"github.com/jmattheis/goverter/comments"
	"github.com/jmattheis/goverter/config"
	"github.com/jmattheis/goverter/generator"
	"github.com/jmattheis/goverter/pkgload"
)

// GoEnv is the environment for go subprocesses started inside scratch modules.
func GoEnv(extra ...string) []string {
	env := []string{}
	for _, kv := range os.Environ() {
		k := strings.SplitN(kv, "=", 2)[0]
		switch k {
		case "GOFLAGS", "GOPROXY", "GOSUMDB", "GOTOOLCHAIN", "GOWORK":
			continue
		}
		env = append(env, kv)
	}
	env = append(env, "GOFLAGS=-mod=mod", "GOPROXY=off", "GOSUMDB=off", "GOTOOLCHAIN=local", "GOWORK=off")
	return append(env, extra...)
}

func init() {
	// goverter's package loads run `go list` with the environment of this process.
	os.Setenv("GOFLAGS", "-mod=mod")
	os.Setenv("GOPROXY", "off")
	os.Setenv("GOSUMDB", "off")
	os.Setenv("GOTOOLCHAIN", "local")
	os.Setenv("GOWORK", "off")
}

// WriteTree writes files (relative path -> content) below dir.
func WriteTree(dir string, files map[string]string) error {
	for name, content := range files {
		p := filepath.Join(dir, name)
		if err := os.MkdirAll(filepath.Dir(p), 0o755); err != nil {
			return err
		}
		if err := os.WriteFile(p, []byte(content), 0o644); err != nil {
			return err
		}
	}
	return nil
}

// CmdResult is the outcome of a subprocess.
type CmdResult struct {
	Stdout   string
	Stderr   string
	Exit     int
	TimedOut bool
	Err      error
}

// RunCmd runs a command with a timeout guard.
func RunCmd(dir string, env []string, timeout time.Duration, name string, args ...string) CmdResult {
	ctx, cancel := context.WithTimeout(context.Background(), timeout)
	defer cancel()
	cmd := exec.CommandContext(ctx, name, args...)
	cmd.Dir = dir
	cmd.Env = env
	var so, se bytes.Buffer
	cmd.Stdout = &so
	cmd.Stderr = &se
	err := cmd.Run()
	res := CmdResult{Stdout: so.String(), Stderr: se.String()}
	if ctx.Err() == context.DeadlineExceeded {
		res.TimedOut = true
		res.Exit = -1
		return res
	}
	if err != nil {
		var ee *exec.ExitError
		if errors.As(err, &ee) {
			res.Exit = ee.ExitCode()
		} else {
			res.Exit = -1
			res.Err = err
		}
	}
	return res
}

// GenResult is the outcome of one in-process goverter invocation.
type GenResult struct {
	Files map[string][]byte
	Err   error
	Panic string // non-empty: recovered panic value + stack
	Hang  bool
}

func (r GenResult) OK() bool { return r.Err == nil && r.Panic == "" && !r.Hang }

func guarded(timeout time.Duration, fn func() (map[string][]byte, error)) GenResult {
	ch := make(chan GenResult, 1)
	go func() {
		var res GenResult
		defer func() {
			if p := recover(); p != nil {
				res.Panic = fmt.Sprintf("%v\n%s", p, debug.Stack())
			}
			ch <- res
		}()
		res.Files, res.Err = fn()
	}()
	select {
	case r := <-ch:
		return r
	case <-time.After(timeout):
		return GenResult{Hang: true}
	}
}

// GenOpts are the options of a whole-program goverter run.
type GenOpts struct {
	Dir        string
	Patterns   []string
	Global     []string
	BuildTags  string
	Constraint string
	NoDefaults bool // leave BuildTags/Constraint as given even if empty
}

func (o GenOpts) cfg() *goverter.GenerateConfig {
	tags, cons := o.BuildTags, o.Constraint
	if !o.NoDefaults {
		if tags == "" {
			tags = "goverter"
		}
		if cons == "" {
			cons = "!goverter"
		}
	}
	return &goverter.GenerateConfig{
		PackagePatterns:       o.Patterns,
		WorkingDir:            o.Dir,
		Global:                config.RawLines{Lines: o.Global, Location: "command line (-g, -global)"},
		BuildTags:             tags,
		OutputBuildConstraint: cons,
	}
}

// Generate runs goverter's real in-memory entry point for the whole program.
func Generate(o GenOpts) GenResult {
	c := o.cfg()
	return guarded(120*time.Second, func() (map[string][]byte, error) {
		return goverter.GenerateConvertersRaw(c)
	})
}

// Loaded is a program whose docs were parsed and whose packages are loaded, so that
// many directive variants can be evaluated against it.
type Loaded struct {
	Opts   GenOpts
	Raw    []config.RawConverter
	Loader *pkgload.PackageLoader
}

// Load parses docs and loads packages once.
func Load(o GenOpts) (*Loaded, error) {
	c := o.cfg()
	raw, err := comments.ParseDocs(comments.ParseDocsConfig{
		BuildTags: c.BuildTags, PackagePattern: c.PackagePatterns, WorkingDir: c.WorkingDir,
	})
	if err != nil {
		return nil, err
	}
	loader, err := config.NewLoader(&config.Raw{
		BuildTags: c.BuildTags, WorkDir: c.WorkingDir, Converters: raw, Global: c.Global,
		OuputBuildConstraint: c.OutputBuildConstraint,
	})
	if err != nil {
		return nil, err
	}
	return &Loaded{Opts: o, Raw: raw, Loader: loader}, nil
}

// ConvResult is the verdict for one converter.
type ConvResult struct {
	Name string
	GenResult
	Stage string // "config" or "generate"
}

// cloneRaw deep-copies raw converters so that variants never share line slices.
func cloneRaw(in []config.RawConverter) []config.RawConverter {
	out := make([]config.RawConverter, len(in))
	for i, rc := range in {
		c := rc
		c.Converter.Lines = append([]string{}, rc.Converter.Lines...)
		c.Methods = map[string]config.RawLines{}
		for k, v := range rc.Methods {
			v.Lines = append([]string{}, v.Lines...)
			c.Methods[k] = v
		}
		out[i] = c
	}
	return out
}

// PerConverter evaluates every converter of the loaded program separately
// (config parse + generation), with optional edits of the raw lines.
func (l *Loaded) PerConverter(global []string, edit func(rc *config.RawConverter)) []ConvResult {
	return l.PerConverterOnly(-1, global, edit)
}

// PerConverterOnly is PerConverter restricted to the converter with index only (-1: all).
func (l *Loaded) PerConverterOnly(only int, global []string, edit func(rc *config.RawConverter)) []ConvResult {
	raws := cloneRaw(l.Raw)
	var out []ConvResult
	c := l.Opts.cfg()
	for i := range raws {
		if only >= 0 && i != only {
			continue
		}
		rc := raws[i]
		if edit != nil {
			edit(&rc)
		}
		name := rc.InterfaceName
		if name == "" {
			name = "vars:" + filepath.Base(rc.FileName)
		}
		res := ConvResult{Name: name}
		var convs []*config.Converter
		r := guarded(60*time.Second, func() (map[string][]byte, error) {
			var err error
			convs, err = config.ParseWithLoader(&config.Raw{
				BuildTags: c.BuildTags, WorkDir: c.WorkingDir, Converters: []config.RawConverter{rc},
				Global:               config.RawLines{Lines: global, Location: "command line (-g, -global)"},
				OuputBuildConstraint: c.OutputBuildConstraint,
			}, l.Loader)
			return nil, err
		})
		res.Stage = "config"
		res.GenResult = r
		if r.OK() {
			res.Stage = "generate"
			res.GenResult = guarded(60*time.Second, func() (map[string][]byte, error) {
				return generator.Generate(convs, generator.Config{BuildConstraint: c.OutputBuildConstraint})
			})
		}
		out = append(out, res)
	}
	sort.Slice(out, func(i, j int) bool { return out[i].Name < out[j].Name })
	return out
}

// RelFiles maps absolute output paths to paths relative to dir.
func RelFiles(dir string, files map[string][]byte) map[string]string {
	out := map[string]string{}
	for p, c := range files {
		rel, err := filepath.Rel(dir, p)
		if err != nil {
			rel = p
		}
		out[rel] = string(c)
	}
	return out
}

// FirstLines returns at most n lines of s.
func FirstLines(s string, n int) string {
	lines := strings.Split(s, "\n")
	if len(lines) > n {
		lines = lines[:n]
	}
	return strings.Join(lines, "\n")
}

// PanicSig compresses a recovered panic into value + goverter frames.
func PanicSig(p string) string {
	lines := strings.Split(p, "\n")
	sig := []string{lines[0]}
	for _, l := range lines[1:] {
		l = strings.TrimSpace(l)
		if strings.HasPrefix(l, "github.com/jmattheis/goverter") {
			if i := strings.Index(l, "("); i > 0 {
				l = l[:i]
			}
			sig = append(sig, strings.TrimPrefix(l, "github.com/jmattheis/goverter/"))
			if len(sig) > 4 {
				break
			}
		}
	}
	return strings.Join(sig, " <- ")
}

// RawConv is a converter as extracted by comments.ParseDocs.
type RawConv struct {
	Name    string
	Lines   []string
	Methods map[string][]string
}

// ParseDocsResult is the guarded outcome of comments.ParseDocs.
type ParseDocsResult struct {
	Convs []RawConv
	Err   error
	Panic string
}

// ParseDocsGuarded calls the public comments.ParseDocs under recover().
func ParseDocsGuarded(c comments.ParseDocsConfig) (res ParseDocsResult) {
	defer func() {
		if p := recover(); p != nil {
			res.Panic = fmt.Sprintf("%v\n%s", p, debug.Stack())
		}
	}()
	raw, err := comments.ParseDocs(c)
	res.Err = err
	for _, rc := range raw {
		out := RawConv{Name: rc.InterfaceName, Lines: rc.Converter.Lines, Methods: map[string][]string{}}
		for m, l := range rc.Methods {
			out.Methods[m] = l.Lines
		}
		res.Convs = append(res.Convs, out)
	}
	return res
}
