// Package spec is the typed model of an input program for goverter: type
// expressions, declarations, converters, and their rendering to Go source.
package spec

import (
	"fmt"
	"sort"
	"strings"
)

// Kinds of type expressions.
const (
	KBasic  = "basic"
	KNamed  = "named"
	KPtr    = "ptr"
	KSlice  = "slice"
	KArray  = "array"
	KMap    = "map"
	KStruct = "struct"
	KIface  = "iface" // Name: "any", "error" or a literal interface text
	KFunc   = "func"  // Name: literal text, e.g. "func()"
	KChan   = "chan"  // Name: "chan", "<-chan", "chan<-"
	KParam  = "param" // type parameter, Name
)

// T is a type expression.
type T struct {
	K      string  `json:"k"`
	Name   string  `json:"name,omitempty"`
	Pkg    string  `json:"pkg,omitempty"` // KNamed: key of the declaring package; "" = universe
	Args   []*T    `json:"args,omitempty"`
	Elem   *T      `json:"elem,omitempty"`
	Key    *T      `json:"key,omitempty"`
	Len    int     `json:"len,omitempty"`
	Fields []Field `json:"fields,omitempty"`
	// Spell (KNamed): this occurrence is written with a type alias of that name, declared next to
	// the type (type Spell = Name). Identity, keys and the rule model do not see it.
	Spell string `json:"spell,omitempty"`
}

// Field is a struct field.
type Field struct {
	Name     string `json:"name"`
	T        *T     `json:"t"`
	Embedded bool   `json:"embedded,omitempty"`
	Tag      string `json:"tag,omitempty"`
}

func Basic(name string) *T      { return &T{K: KBasic, Name: name} }
func Named(pkg, name string) *T { return &T{K: KNamed, Pkg: pkg, Name: name} }
func Ptr(e *T) *T               { return &T{K: KPtr, Elem: e} }
func Slice(e *T) *T             { return &T{K: KSlice, Elem: e} }
func Array(n int, e *T) *T      { return &T{K: KArray, Len: n, Elem: e} }
func Map(k, v *T) *T            { return &T{K: KMap, Key: k, Elem: v} }
func Struct(fields ...Field) *T { return &T{K: KStruct, Fields: fields} }
func Iface(text string) *T      { return &T{K: KIface, Name: text} }
func Func(text string) *T       { return &T{K: KFunc, Name: text} }

// FuncOf is a function type whose text holds one %s that stands for the type elem.
func FuncOf(text string, elem *T) *T { return &T{K: KFunc, Name: text, Elem: elem} }
func Chan(dir string, e *T) *T       { return &T{K: KChan, Name: dir, Elem: e} }
func F(name string, t *T) Field      { return Field{Name: name, T: t} }
func Generic(pkg, name string, args ...*T) *T {
	return &T{K: KNamed, Pkg: pkg, Name: name, Args: args}
}

// Exported reports whether a field name is exported.
func Exported(name string) bool {
	return name != "" && name[0] >= 'A' && name[0] <= 'Z'
}

// Key is a canonical string of the type expression (package keys, not paths).
func (t *T) Key_() string {
	if t == nil {
		return "<nil>"
	}
	switch t.K {
	case KBasic, KParam:
		return t.Name
	case KNamed:
		s := t.Name
		if t.Pkg != "" {
			s = t.Pkg + "." + t.Name
		}
		if len(t.Args) > 0 {
			var a []string
			for _, x := range t.Args {
				a = append(a, x.Key_())
			}
			s += "[" + strings.Join(a, ",") + "]"
		}
		return s
	case KPtr:
		return "*" + t.Elem.Key_()
	case KSlice:
		return "[]" + t.Elem.Key_()
	case KArray:
		return fmt.Sprintf("[%d]%s", t.Len, t.Elem.Key_())
	case KMap:
		return "map[" + t.Key.Key_() + "]" + t.Elem.Key_()
	case KStruct:
		var fs []string
		for _, f := range t.Fields {
			n := f.Name + " "
			if f.Embedded {
				n = ""
			}
			fs = append(fs, n+f.T.Key_())
		}
		return "struct{" + strings.Join(fs, "; ") + "}"
	case KFunc:
		if t.Elem != nil {
			return strings.Replace(t.Name, "%s", t.Elem.Key_(), 1)
		}
		return t.Name
	case KIface:
		return t.Name
	case KChan:
		return t.Name + " " + t.Elem.Key_()
	}
	return "?"
}

// TypeDecl is a named type declaration.
type TypeDecl struct {
	Name    string       `json:"name"`
	Params  []string     `json:"params,omitempty"` // type parameters (constraint any)
	U       *T           `json:"u"`
	Alias   bool         `json:"alias,omitempty"`
	Consts  []Const      `json:"consts,omitempty"`
	Methods []TypeMethod `json:"methods,omitempty"`
	Doc     []string     `json:"doc,omitempty"`
	// Spellings: aliases of this type declared next to it (type X = Name)
	Spellings []string `json:"spellings,omitempty"`
}

// Const is a constant of the declaring named type.
type Const struct {
	Name  string `json:"name"`
	Value string `json:"value"`         // Go literal
	Via   string `json:"via,omitempty"` // declared with this alias of the type instead of its name
}

// TypeMethod is a method on a named type (used as argument-less source method).
type TypeMethod struct {
	Name   string `json:"name"`
	Ptr    bool   `json:"ptr,omitempty"`
	Result *T     `json:"result"`
	Err    bool   `json:"err,omitempty"`
	Body   string `json:"body"` // Go statements; receiver is named "r"
}

// Param is a function parameter.
type Param struct {
	Name string `json:"name,omitempty"`
	T    *T     `json:"t"`
}

// FuncDecl is a package-level function (custom function).
type FuncDecl struct {
	Name    string   `json:"name"`
	TParams []string `json:"tparams,omitempty"`
	Doc     []string `json:"doc,omitempty"` // full comment lines without the leading //
	Params  []Param  `json:"params"`
	Results []*T     `json:"results"`
	Body    string   `json:"body"`
	// ResultInBody: occurrences of RESULT in Body are replaced by the rendered first result type
	ResultInBody bool `json:"resultInBody,omitempty"`
}

// Method is a converter method (interface method or function variable).
type Method struct {
	Name    string   `json:"name"`
	Doc     []string `json:"doc,omitempty"` // directive lines without "goverter:" prefix
	Params  []Param  `json:"params"`
	Results []*T     `json:"results"`
}

// Converter is a goverter:converter interface or a goverter:variables block.
type Converter struct {
	Name    string    `json:"name"` // interface name; for variables a label only
	Vars    bool      `json:"vars,omitempty"`
	Doc     []string  `json:"doc,omitempty"` // directive lines without prefix (marker is added by the renderer)
	Methods []*Method `json:"methods"`
	File    string    `json:"file,omitempty"` // file name inside the package (default per package)
}

// Package is one user package.
type Package struct {
	Key        string       `json:"key"`  // short key used by T.Pkg
	Path       string       `json:"path"` // path below the module root ("" = root)
	Name       string       `json:"name"`
	Types      []*TypeDecl  `json:"types,omitempty"`
	Funcs      []*FuncDecl  `json:"funcs,omitempty"`
	Converters []*Converter `json:"converters,omitempty"`
	RawDecls   []string     `json:"raw,omitempty"`     // extra top-level Go text
	Imports    []string     `json:"imports,omitempty"` // extra std imports needed by bodies/raw
}

// Program is a scratch module.
type Program struct {
	Module string     `json:"module"`
	Pkgs   []*Package `json:"pkgs"`
	GoMod  string     `json:"gomod,omitempty"` // extra go.mod lines
}

// Pkg returns the package with the given key.
func (p *Program) Pkg(key string) *Package {
	for _, pk := range p.Pkgs {
		if pk.Key == key {
			return pk
		}
	}
	return nil
}

// ImportPath returns the import path of a package key.
func (p *Program) ImportPath(key string) string {
	pk := p.Pkg(key)
	if pk == nil {
		return key // std package given directly
	}
	if pk.Path == "" {
		return p.Module
	}
	return p.Module + "/" + pk.Path
}

// Decl finds the declaration of a named type.
func (p *Program) Decl(t *T) *TypeDecl {
	if t == nil || t.K != KNamed {
		return nil
	}
	pk := p.Pkg(t.Pkg)
	if pk == nil {
		return nil
	}
	for _, d := range pk.Types {
		if d.Name == t.Name {
			return d
		}
	}
	return nil
}

// Subst substitutes type parameters.
func Subst(t *T, env map[string]*T) *T {
	if t == nil || len(env) == 0 {
		return t
	}
	switch t.K {
	case KParam:
		if r, ok := env[t.Name]; ok {
			return r
		}
		return t
	case KBasic, KIface, KFunc:
		return t
	}
	c := *t
	c.Elem = Subst(t.Elem, env)
	c.Key = Subst(t.Key, env)
	if len(t.Args) > 0 {
		c.Args = nil
		for _, a := range t.Args {
			c.Args = append(c.Args, Subst(a, env))
		}
	}
	if len(t.Fields) > 0 {
		c.Fields = nil
		for _, f := range t.Fields {
			f.T = Subst(f.T, env)
			c.Fields = append(c.Fields, f)
		}
	}
	return &c
}

// Underlying resolves a named type to its underlying type expression (with type
// arguments substituted); other types are returned unchanged.
func (p *Program) Underlying(t *T) *T {
	for i := 0; i < 50 && t != nil && t.K == KNamed; i++ {
		if t.Pkg == "" {
			if t.Name == "error" {
				return Iface("error")
			}
			if t.Name == "any" {
				return Iface("any")
			}
			return t
		}
		d := p.Decl(t)
		if d == nil {
			return t
		}
		env := map[string]*T{}
		for i, n := range d.Params {
			if i < len(t.Args) {
				env[n] = t.Args[i]
			}
		}
		t = Subst(d.U, env)
	}
	return t
}

// ---------------------------------------------------------------------------
// Rendering

type renderer struct {
	prog    *Program
	cur     *Package
	imports map[string]string // import path -> alias
}

func (r *renderer) qual(pkgKey string) string {
	if pkgKey == "" || pkgKey == r.cur.Key {
		return ""
	}
	path := r.prog.ImportPath(pkgKey)
	if a, ok := r.imports[path]; ok {
		return a + "."
	}
	alias := fmt.Sprintf("x%d", len(r.imports))
	if pk := r.prog.Pkg(pkgKey); pk == nil {
		alias = pkgKey[strings.LastIndex(pkgKey, "/")+1:]
	}
	r.imports[path] = alias
	return alias + "."
}

// Expr renders a type expression as seen from the current package.
func (r *renderer) Expr(t *T) string {
	switch t.K {
	case KBasic, KParam:
		if t.Name == "unsafe.Pointer" {
			r.imports["unsafe"] = "unsafe"
		}
		return t.Name
	case KNamed:
		name := t.Name
		if t.Spell != "" {
			name = t.Spell
		}
		s := r.qual(t.Pkg) + name
		if len(t.Args) > 0 {
			var a []string
			for _, x := range t.Args {
				a = append(a, r.Expr(x))
			}
			s += "[" + strings.Join(a, ", ") + "]"
		}
		return s
	case KPtr:
		return "*" + r.Expr(t.Elem)
	case KSlice:
		return "[]" + r.Expr(t.Elem)
	case KArray:
		return fmt.Sprintf("[%d]%s", t.Len, r.Expr(t.Elem))
	case KMap:
		return "map[" + r.Expr(t.Key) + "]" + r.Expr(t.Elem)
	case KStruct:
		var fs []string
		for _, f := range t.Fields {
			s := f.Name + " " + r.Expr(f.T)
			if f.Embedded {
				s = r.Expr(f.T)
			}
			if f.Tag != "" {
				s += " `" + f.Tag + "`"
			}
			fs = append(fs, s)
		}
		if len(fs) == 0 {
			return "struct{}"
		}
		return "struct{ " + strings.Join(fs, "; ") + " }"
	case KFunc:
		if t.Elem != nil {
			return strings.Replace(t.Name, "%s", r.Expr(t.Elem), 1)
		}
		return t.Name
	case KIface:
		return t.Name
	case KChan:
		if t.Name == "chan" && t.Elem.K == KChan && t.Elem.Name == "<-chan" {
			return "chan (" + r.Expr(t.Elem) + ")"
		}
		return t.Name + " " + r.Expr(t.Elem)
	}
	return "BAD"
}

func (r *renderer) params(ps []Param) string {
	var out []string
	for _, p := range ps {
		if p.Name == "" {
			out = append(out, r.Expr(p.T))
		} else {
			out = append(out, p.Name+" "+r.Expr(p.T))
		}
	}
	return strings.Join(out, ", ")
}

func (r *renderer) results(rs []*T) string {
	var out []string
	for _, t := range rs {
		out = append(out, r.Expr(t))
	}
	switch len(out) {
	case 0:
		return ""
	case 1:
		return " " + out[0]
	}
	return " (" + strings.Join(out, ", ") + ")"
}

func tparams(ps []string) string {
	if len(ps) == 0 {
		return ""
	}
	return "[" + strings.Join(ps, ", ") + " any]"
}

// TypeExpr renders t as seen from package from (without tracking imports).
func (p *Program) TypeExpr(from string, t *T) (string, map[string]string) {
	r := &renderer{prog: p, cur: p.Pkg(from), imports: map[string]string{}}
	if r.cur == nil {
		r.cur = &Package{Key: from}
	}
	return r.Expr(t), r.imports
}

func docLines(prefix string, lines []string) string {
	var b strings.Builder
	for _, l := range lines {
		b.WriteString(prefix + "// goverter:" + l + "\n")
	}
	return b.String()
}

// RenderConverter renders one converter declaration.
func (r *renderer) converter(c *Converter) string {
	var b strings.Builder
	if c.Vars {
		b.WriteString("// goverter:variables\n")
		b.WriteString(docLines("", c.Doc))
		b.WriteString("var (\n")
		for _, m := range c.Methods {
			b.WriteString(docLines("\t", m.Doc))
			b.WriteString(fmt.Sprintf("\t%s func(%s)%s\n", m.Name, r.params(m.Params), r.results(m.Results)))
		}
		b.WriteString(")\n")
		return b.String()
	}
	b.WriteString("// goverter:converter\n")
	b.WriteString(docLines("", c.Doc))
	b.WriteString("type " + c.Name + " interface {\n")
	for _, m := range c.Methods {
		b.WriteString(docLines("\t", m.Doc))
		b.WriteString(fmt.Sprintf("\t%s(%s)%s\n", m.Name, r.params(m.Params), r.results(m.Results)))
	}
	b.WriteString("}\n")
	return b.String()
}

func (r *renderer) typeDecl(d *TypeDecl) string {
	var b strings.Builder
	for _, l := range d.Doc {
		b.WriteString("// " + l + "\n")
	}
	eq := " "
	if d.Alias {
		eq = " = "
	}
	b.WriteString("type " + d.Name + tparams(d.Params) + eq + r.Expr(d.U) + "\n")
	for _, a := range d.Spellings {
		b.WriteString("type " + a + " = " + d.Name + "\n")
	}
	if len(d.Consts) > 0 {
		b.WriteString("const (\n")
		for _, c := range d.Consts {
			tn := d.Name
			if c.Via != "" {
				tn = c.Via
			}
			b.WriteString(fmt.Sprintf("\t%s %s = %s\n", c.Name, tn, c.Value))
		}
		b.WriteString(")\n")
	}
	for _, m := range d.Methods {
		recv := d.Name
		if len(d.Params) > 0 {
			recv += "[" + strings.Join(d.Params, ", ") + "]"
		}
		if m.Ptr {
			recv = "*" + recv
		}
		res := r.Expr(m.Result)
		if m.Err {
			res = "(" + res + ", error)"
		}
		b.WriteString(fmt.Sprintf("func (r %s) %s() %s {\n%s\n}\n", recv, m.Name, res, m.Body))
	}
	return b.String()
}

func (r *renderer) funcDecl(f *FuncDecl) string {
	var b strings.Builder
	for _, l := range f.Doc {
		b.WriteString("//" + l + "\n")
	}
	body := f.Body
	if f.ResultInBody && len(f.Results) > 0 {
		body = strings.ReplaceAll(body, "RESULT", r.Expr(f.Results[0]))
	}
	b.WriteString(fmt.Sprintf("func %s%s(%s)%s {\n%s\n}\n", f.Name, tparams(f.TParams), r.params(f.Params), r.results(f.Results), body))
	return b.String()
}

// Files renders the program to a file tree (relative path -> content), including go.mod.
func (p *Program) Files() map[string]string {
	out := map[string]string{}
	gomod := "module " + p.Module + "\n\ngo 1.22\n"
	if p.GoMod != "" {
		gomod += p.GoMod + "\n"
	}
	out["go.mod"] = gomod
	for _, pk := range p.Pkgs {
		byFile := map[string][]string{}
		mainFile := "types.go"
		r := &renderer{prog: p, cur: pk, imports: map[string]string{}}
		var body strings.Builder
		for _, d := range pk.Types {
			body.WriteString(r.typeDecl(d) + "\n")
		}
		for _, f := range pk.Funcs {
			body.WriteString(r.funcDecl(f) + "\n")
		}
		for _, raw := range pk.RawDecls {
			body.WriteString(raw + "\n\n")
		}
		for _, imp := range pk.Imports {
			r.imports[imp] = ""
		}
		// converters rendered into their own files share the import tracking per file
		perFile := map[string]*renderer{}
		for _, c := range pk.Converters {
			file := c.File
			if file == "" {
				file = "conv.go"
			}
			fr := perFile[file]
			if fr == nil {
				fr = &renderer{prog: p, cur: pk, imports: map[string]string{}}
				perFile[file] = fr
			}
			byFile[file] = append(byFile[file], fr.converter(c))
		}
		dir := pk.Path
		join := func(name string) string {
			if dir == "" {
				return name
			}
			return dir + "/" + name
		}
		out[join(mainFile)] = fileText(pk.Name, r.imports, body.String())
		for file, decls := range byFile {
			out[join(file)] = fileText(pk.Name, perFile[file].imports, strings.Join(decls, "\n"))
		}
	}
	return out
}

func fileText(pkgName string, imports map[string]string, body string) string {
	var b strings.Builder
	b.WriteString("package " + pkgName + "\n\n")
	if len(imports) > 0 {
		paths := make([]string, 0, len(imports))
		for p := range imports {
			paths = append(paths, p)
		}
		sort.Strings(paths)
		b.WriteString("import (\n")
		for _, p := range paths {
			a := imports[p]
			if a == "" || a == p[strings.LastIndex(p, "/")+1:] {
				b.WriteString(fmt.Sprintf("\t%q\n", p))
			} else {
				b.WriteString(fmt.Sprintf("\t%s %q\n", a, p))
			}
		}
		b.WriteString(")\n\n")
	}
	b.WriteString(body)
	return b.String()
}
