module verif/harness

go 1.23

require (
	github.com/dave/jennifer v1.6.0
	github.com/jmattheis/goverter v0.0.0
	golang.org/x/tools v0.25.0
	pgregory.net/rapid v1.3.0
)

require (
	golang.org/x/mod v0.21.0 // indirect
	golang.org/x/sync v0.8.0 // indirect
)

replace github.com/jmattheis/goverter => /repo
