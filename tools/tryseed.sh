#!/bin/bash
# tools/tryseed.sh <worktree> <property> [checks...]
# Confirms a sub-agent's seed (build, suite, demo with / without the change) and runs the
# given checks (default: the property's check) against the worktree with the change applied.
set -u
export GOFLAGS=-mod=mod GOPROXY=off GOSUMDB=off GOTOOLCHAIN=local
wt=$1; prop=$2; shift 2
checks=${@:-$prop}
cd $wt || exit 2
echo "== with change: build + suite"
go build ./... && go test ./... 2>&1 | grep -v "no test files" | grep -v "^ok" | head -5
echo "== demo with change (must fail)"
(cd seed/demo && go test -count=1 ./... 2>&1 | tail -3)
git apply -R seed/patch.diff
echo "== demo without change (must pass)"
(cd seed/demo && go test -count=1 ./... 2>&1 | tail -3)
git apply seed/patch.diff
for c in $checks; do
  echo "== check $c against the change"
  (cd /verif && VERIF_REPO=$wt ./check $c 2>&1 | grep -v "^KNOWN" | cut -c1-400 | tail -6)
done
