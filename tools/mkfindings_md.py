#!/usr/bin/env python3
"""Regenerates the findings table of DESIGN.md from known_findings.json."""
import json, os
V = os.path.dirname(os.path.dirname(os.path.abspath(__file__)))
s = open(os.path.join(V, "DESIGN.md")).read()
b, e = "<!-- FINDINGS-BEGIN (generated from known_findings.json by tools/mkfindings_md.py) -->\n", "<!-- FINDINGS-END -->"
i, j = s.index(b) + len(b), s.index(e)
kf = json.load(open(os.path.join(V, "known_findings.json")))["findings"]
rows = ["| id | property | what fails (specific input) | status |", "|---|---|---|---|"]
for f in sorted(kf, key=lambda f: (f["status"] != "fixed", f["property"], f["id"])):
    st = "fixed " + f.get("commit", "") if f["status"] == "fixed" else "open"
    rows.append("| %s | %s | %s | %s |" % (f["id"], f["property"], f["what"].replace("|", "\\|"), st))
open(os.path.join(V, "DESIGN.md"), "w").write(s[:i] + "\n".join(rows) + "\n" + s[j:])
print("findings table: %d rows" % len(kf))
