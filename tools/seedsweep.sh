#!/bin/bash
# tools/seedsweep.sh [ids...]: applies every seeded change to a scratch worktree of /repo HEAD,
# checks that it builds and passes goverter's own suite, runs the property's quick check against it
# and prints one line per seed (caught / MISSED). Worktrees are removed afterwards.
export GOFLAGS=-mod=mod GOPROXY=off GOSUMDB=off GOTOOLCHAIN=local
V=$(cd "$(dirname "$0")/.." && pwd)
ids=${@:-$(ls $V/seeded | grep -v RESULTS)}
for id in $ids; do
  d=$V/seeded/$id
  prop=$(python3 -c "import json;m=json.load(open('$d/meta.json'));print(m.get('reported_by', m['property']))")
  wt=$(mktemp -d /tmp/seedwt-XXXXXX); rmdir $wt
  git -C /repo worktree add -q $wt HEAD || { echo "$id: cannot create worktree"; continue; }
  if ! git -C $wt apply $d/patch.diff 2>/dev/null; then echo "$id property=$prop: patch does not apply to HEAD"; git -C /repo worktree remove --force $wt; continue; fi
  suite=ok
  if [ -n "${SKIP_SUITE:-}" ]; then
    suite=skipped
    (cd $wt && go build ./... >/dev/null 2>&1) || suite=FAILS
  else
    (cd $wt && go build ./... >/dev/null 2>&1 && go test ./... >/dev/null 2>&1) || suite=FAILS
  fi
  out=$(cd $V && VERIF_REPO=$wt ./check $prop 2>&1)
  rc=$?
  if echo "$out" | grep -q "^VIOLATION property=$prop"; then verdict=caught; else verdict="MISSED(exit $rc)"; fi
  echo "seed=${VERIF_SEED:-1} $id property=$prop suite=$suite check=$verdict $(echo "$out" | grep -A1 "^VIOLATION" | sed -n 2p | cut -c1-160)"
  git -C /repo worktree remove --force $wt
  rm -rf $wt
done
find $V/replays -name '*.json' -delete
