#!/usr/bin/env python3
"""Pretty-print a runCase / progCase replay file."""
import json,sys
def ty(t):
    if t is None: return 'nil'
    k=t['k']
    if k in('basic','iface','func','param'):return t['name']
    if k=='named':return (t.get('pkg','')+'.' if t.get('pkg') else '')+t['name']
    if k=='ptr':return '*'+ty(t['elem'])
    if k=='slice':return '[]'+ty(t['elem'])
    if k=='array':return '[%d]'%t['len']+ty(t['elem'])
    if k=='map':return 'map[%s]%s'%(ty(t['key']),ty(t['elem']))
    if k=='struct':return 'struct{'+'; '.join(f['name']+' '+ty(f['t']) for f in t.get('fields',[]))+'}'
    if k=='chan':return t['name']+' '+ty(t['elem'])
    return k
d=json.load(open(sys.argv[1]))
print(d['message'][:1500]); print()
c=d['case']['conv']
print('conv settings',c['Settings'])
for m in c['Methods']:
    print('METHOD',m['name'], ty(m['source']),'->',ty(m['target']), 'upd' if m.get('update') else '', 'err' if m.get('err') else '', 'ctx',[ty(x) for x in m.get('contexts') or []])
    print('    fields',json.dumps(m.get('fields')), 'automap',m.get('autoMap'), 'settings',m['settings'], 'default', (m.get('default') or {}).get('name'))
for e in c.get('Extends') or []:
    print('EXT',e['name'],ty(e.get('source')),'->',ty(e['target']),[ty(x) for x in e.get('contexts') or []], e.get('err'))
for p in c['Prog']['pkgs']:
    for td in p.get('types',[]): print(p['key'],'type',td['name'],ty(td['u']), [m['name'] for m in td.get('methods',[])], [(k['name'],k['value']) for k in td.get('consts',[])] or '')
    for f in p.get('funcs',[]): print(p['key'],' func',f['name'],[(x.get('name'),ty(x['t'])) for x in f['params']],[ty(x) for x in f['results']], f.get('doc'))
    for cv in p.get('converters',[]):
        print(p['key'],'CONVERTER',cv['name'],cv.get('doc'))
        for m in cv['methods']: print('   ',m['name'],m.get('doc'),[(x.get('name'),ty(x['t'])) for x in m['params']],[ty(x) for x in m['results']])
