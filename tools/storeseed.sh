#!/bin/bash
# tools/storeseed.sh <worktree> <property> <n> <breaks> <needs> <result>
# Stores a confirmed seeded change from a sub-agent's scratch worktree under seeded/.
set -eu
wt=$1; prop=$2; n=$3; breaks=$4; needs=$5; result=$6
lc=$(echo $prop | tr A-Z a-z)
dst=/verif/seeded/$prop-$lc-seed$n
rm -rf $dst; mkdir -p $dst
cp $wt/seed/patch.diff $dst/
cp -r $wt/seed/demo $dst/demo
[ -f $wt/seed/NOTES.md ] && cp $wt/seed/NOTES.md $dst/
find $dst -name '*.log' -delete
python3 - "$dst" "$prop" "$breaks" "$needs" "$result" <<'P'
import json,sys
dst,prop,breaks,needs,result=sys.argv[1:6]
json.dump({
 "property": prop, "breaks": breaks, "needs_to_manifest": needs,
 "origin": "independent sub-agent (second round) given only the property text, a one-line description of the first seed to avoid, and a scratch worktree of /repo",
 "confirmed": "in the scratch worktree: go build ./... and go test ./... pass with the change; demo (go test in demo/) fails with the change and passes with it reverted (tools/tryseed.sh)",
 "checks_run": "VERIF_REPO=<worktree with the change> ./check %s --tier quick" % prop,
 "result": result,
 "demo_note": "demo/go.mod replaces github.com/jmattheis/goverter by the scratch worktree path it was written in; point it to a tree with patch.diff applied to run it"
}, open(dst+"/meta.json","w"), indent=1)
P
echo stored $dst
