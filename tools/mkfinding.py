#!/usr/bin/env python3
"""Helpers to hand-write minimal finding replays (typeCase / dirCase of C13)."""
import json, sys
def B(n): return {"k":"basic","name":n}
def SL(e): return {"k":"slice","elem":e}
def MP(k,v): return {"k":"map","key":k,"elem":v}
def ST(*fields): return {"k":"struct","fields":[{"name":n,"t":t} for n,t in fields]}
def NM(pkg,name): return {"k":"named","pkg":pkg,"name":name}
def types_case(src,dst,doc=None,name="C0",types=None):
    return {"prog":{"module":"example.com/any","pkgs":[{"key":"p","path":"p","name":"p","types":types or [],
      "converters":[{"name":name,"doc":doc or [],"methods":[{"name":"Convert","params":[{"name":"source","t":src}],"results":[dst]}]}]}]},
      "patterns":["./p"]}
def write(path, prop, tag, case, msg):
    json.dump({"property":prop,"tag":tag,"message":msg,"case":case}, open(path,"w"), indent=1)
if __name__ == "__main__":
    write("findings/F-BASIC-UINTPTR.json","C13","types",types_case(SL(B("uintptr")),SL(B("uintptr"))),"panic: unsupported type 12")
    write("findings/F-BASIC-UNSAFEPTR.json","C13","types",types_case(MP(B("string"),B("unsafe.Pointer")),MP(B("string"),B("unsafe.Pointer"))),"panic: unsupported type 18")
    write("findings/F-ERR-ENUM-NILPKG.json","C13","types",types_case(ST(("E",NM("","error"))),ST(("E",NM("","error")))),"panic: nil pointer dereference in enum detection")
    write("findings/F-GENERIC-IFACE.json","C13","types",types_case(B("int"),B("int"),name="C0[T any]"),"panic: unsupported type T")
    write("findings/F-ERRPATH-EMPTYID.json","C13","dir",{"converter":"Full","position":"method","method":"Convert","at":0,"lines":["autoMap ."]},"panic: strings: negative Repeat count")
