#!/usr/bin/env python3
"""Regenerates /verif/MANIFEST.json from the table below (and validates it)."""
import json, os, subprocess
V = os.path.dirname(os.path.dirname(os.path.abspath(__file__)))
ALL = ["C%02d" % i for i in range(1, 20)]

CHECKS = {
 "C03": dict(
  engine="E-gen",
  technique="exhaustive enumeration + rapid property-based generation of type pairs, differential against an independent rule model (per-converter generation verdicts)",
  level="Generated-input search: every ordered pair of types up to constructor depth 1 over a 16-atom alphabet under 8 setting combinations is enumerated completely (depth 2 exhaustively in the thorough tier), random deeper struct pairs with field settings come from rapid generators; each is decided by real per-converter generation and compared, in both directions, with an independent model of the documented rules. Exploration, not proof: beyond the enumerated bound only sampled.",
  note="Trusts the rule model (harness/model) as a faithful reading of the docs, go/packages type information, and that per-converter generation equals the verdict of a whole run restricted to that converter. Panics are C13's business and counted apart.",
  design="5/C03"),
 "C13": dict(
  engine="E-gen",
  technique="property-based fuzzing (rapid grammar+mutation directive generator, full-type-grammar program generator) with a no-panic / no-hang / diagnostic-names-the-declaration oracle; crash journaling and fresh-process confirmation; thorough tier adds a coverage-guided leg (go test -fuzz over rapid.MakeFuzz of the directive generator)",
  level="Generated-input search over directive texts at every directive position and over programs of the full Go type grammar; every case must end in output or a diagnostic, panics are caught by recover(), hangs by a generous guard, process deaths (stack overflow) by journaling the case and re-running it alone. Exploration: finds panics that exist in the sampled region, proves nothing beyond it.",
  note="In-process evaluation through the verif hook config.ParseWithLoader for speed; the non-hook path (cli -> GenerateConverters) is exercised by the E-cli checks. A diagnostic must name the converter, its declaring file or the command line; diagnostics about user text that lands verbatim in the emitted file (name, output:raw, output:package, struct:comment, output:file) may show the emitted source instead. The native fuzz leg cannot be pinned to VERIF_SEED; its finds are confirmed through the replay file in a fresh process.",
  design="5/C13"),
 "C02": dict(
  engine="E-run",
  technique="property-based testing: rapid-generated converter programs are generated, compiled and executed on rapid-generated values; differential against a reflective reference interpreter of the rule model's plan",
  level="Generated programs x generated runtime values; every generated method is executed and compared value-by-value (nil-ness, lengths, order, entry counts, basic values) with an independent reference, panics are violations. Exploration over a sampled space of type shapes and values.",
  note="Trusts the rule model's plan and the reflective executor (harness/drvsrc). Goverter failing to generate or emitting uncompilable code is counted as discarded here (C03 / C01 decide those).",
  design="5/C02"),
 "C04": dict(
  engine="E-run",
  technique="property-based testing with aliasing oracle: rapid programs x rapid values with internal sharing; address-interval disjointness, snapshot comparison, result-mutation metamorphic check, Go race detector on concurrent calls",
  level="Generated programs and values; an invariant over each call (no overlapping mutable memory outside model-approved share positions, source unchanged, no race report). Schedules are sampled by the runtime, not enumerated.",
  note="Trusts reflect/unsafe based address analysis in harness/drvsrc and the Go race detector; one known finding (interior pointer under skipCopySameType) is excluded by construction and probed.",
  design="5/C04"),
 "C05": dict(
  engine="E-run + E-gen",
  technique="property-based testing: rapid struct-pair transformations with field settings; differential of per-field runtime values against the model-selected source path, plus generated negative cases whose generation must fail",
  level="Generated struct shapes x setting placements x values; per-field value comparison with an independent reference and accept/reject comparison for misuse cases. Exploration.",
  note="Trusts the rule model for source selection precedence; method-level inheritable flags are compared only inside the method's own body.",
  design="5/C05"),
 "C06": dict(
  engine="E-run",
  technique="property-based testing: rapid programs with custom functions that mark all their inputs, executed on rapid values; differential against the reference plan calling the same functions",
  level="Generated programs x values; equality with the reference holds iff every custom function / declared method was chosen at every depth and received source and context arguments unchanged. Exploration.",
  note="Trusts the rule model for the lookup order (extend, declared method, rules) and the mark functions' digest (collisions would hide, never invent, a violation).",
  design="5/C06"),
 "C07": dict(
  engine="E-run + E-gen",
  technique="property-based fault injection: every recorded fallible call fails in turn and in rapid-chosen sets; oracle on error identity (errors.Is) and on the reported location vs the reference path; generated negative programs must be rejected",
  level="Generated programs x values x fault sets (single faults enumerated per value, multi faults sampled); checks propagation, nil error without faults, and location accuracy for both wrapping modes. Exploration / fault enumeration within each value.",
  note="Location oracle for wrapErrors is the subsequence rule (independent of where goverter places sub-method boundaries).",
  design="5/C07"),
 "C08": dict(
  engine="E-run + E-gen",
  technique="property-based testing: rapid enum-pair generator; generation outcome differential against the rule model, runtime differential over all member values plus generated non-member values against the model's value mapping and unknown policy",
  level="Generated enum programs x configurations x member/non-member values; checks totality, name-driven mapping precedence (map > transformer > name), duplicate handling and the exact unknown policy at run time. Exploration.",
  note="Map iteration order makes the first failing entry of a map unspecified; the oracle accepts any of the failures the reference finds.",
  design="5/C08"),
 "C10": dict(
  engine="E-run",
  technique="property-based testing: rapid update-method programs x rapid (pre-state, source) values; relational oracle per target field (previous value / conversion / either) computed by the reference plan executor",
  level="Generated programs x configurations x pre-state/source values; the oracle accepts exactly the outcomes the statement allows per field and checks that nothing outside *ARG changes. Exploration.",
  note="Three open findings are excluded by construction and probed (non-comparable struct zero check, stale nested members, nillable sources converted by calls).",
  design="5/C10"),
 "C11": dict(
  engine="E-run + E-gen",
  technique="property-based testing: rapid default-constructor and pointer-shape programs executed on rapid values against the reference; generation-outcome differential for the useZeroValueOnPointerInconsistency requirement",
  level="Generated programs x flag placements x nil/non-nil values; checks FUNC's result for nil sources, replacement vs merge semantics, ignored fields, T->*U / *T->U values and that *T->U needs the flag. Exploration.",
  note="Trusts the mark functions (deterministic constructors) and the rule model; undocumented zero-value interplay is left open in the oracle.",
  design="5/C11"),
 "C17": dict(
  engine="E-cli",
  technique="property-based testing on the real CLI: rapid trees with faulty converters at every position, directory snapshots before/after fresh-process runs; rapid argument vectors against a grammar-derived exit-status oracle",
  level="Generated trees x fault subsets x prior outputs; invariant over the file system (nothing changes on failure, exactly the complete outputs on success) and over exit status / streams. Exploration.",
  note="The expected file bytes of successful runs come from in-process generation of the same tree (differential CLI vs library).",
  design="5/C17"),
 "C15": dict(
  engine="E-cli",
  technique="property-based testing on the real CLI: rapid output:file x output:package x existing-package x invocation-directory combinations against an independent model of the documented path / package-name rules, plus AST inspection of every emitted file",
  level="Generated layouts; the expected path set, modes and package clauses are computed without goverter code and compared with what the CLI wrote (snapshot diff proves nothing else changed). Exploration.",
  note="Package-name normalisation follows docs/reference/output.md (lower-cased last path element without non-alphanumerics and leading digits).",
  design="5/C15"),
 "C16": dict(
  engine="E-cli",
  technique="property-based testing over run histories: rapid (tags, constraint, layout, prior-output state) combinations; header-line oracle and regeneration == clean generation",
  level="Generated histories input-change -> regenerate over absent / current / outdated / corrupted outputs and guarded user files; byte comparison with clean generation. Exploration.",
  note="Relies on the build constraint line being intact, as the statement does.",
  design="5/C16"),
 "C09": dict(
  engine="E-cli",
  technique="stateful property-based testing: rapid histories of CLI runs (repetition in fresh processes, pattern permutation, cwd forms, relocation, input edits, output corruption) with the invariant 'equals clean generation of the current input'",
  level="Generated inputs x histories; byte-wise equality of files, exit status and normalised diagnostics against a reference computed from a clean copy after every step. Hash-seed dependence is sampled by repeated fresh processes, not enumerated.",
  note="Two defects found by this check were repaired (map-order dependent diagnostics, pattern-order dependent diagnostics).",
  design="5/C09"),
 "C01": dict(
  engine="E-run (compile only) + E-cli",
  technique="property-based testing: rapid programs over the full feature mix and rapid multi-file layouts; oracle = Go compiler on the whole module plus a generated conformance file plus a scope walk for duplicate / shadowing identifiers",
  level="Generated programs x formats x layouts; whatever goverter accepts must compile and implement the declared API. Exploration; found and fixed the per-file helper namespace defect, three open findings recorded.",
  note="A goverter failure where success was expected is C03's business and counted as discarded here.",
  design="5/C01"),
 "C18": dict(
  engine="E-run (compile only)",
  technique="property-based testing: AST invariants (import set, kinds of top-level declarations, shape of init) over every file emitted for rapid-generated programs",
  level="Universal claim over outputs sampled through the program generator; the invariant is checked on each emitted file. Exploration.",
  note="'exactly the needed imports' = subset check + successful compilation (Go rejects unused imports).",
  design="5/C18"),
 "C12": dict(
  engine="E-gen + E-cli",
  technique="exhaustive table enumeration (setting x {absent, bare, yes, no}^3 placements) with an absolute resolution oracle and a metamorphic canonical-spelling oracle; rapid sampling of the table through the real CLI; enumerated and rapid-generated invalid lines",
  level="The precedence table is enumerated completely for 16 inheritable settings with observable probes (exhaustive: true for that part); invalid placements are enumerated per level, malformed boolean values are generated. Exploration beyond the table.",
  note="Placements are applied to the raw setting lines of a loaded program through the verif hook; the CLI leg writes them into source text and -g.",
  design="5/C12"),
 "C14": dict(
  engine="E-gen",
  technique="exhaustive enumeration of signature shapes (roles x order x naming x results x consumer) decided per converter against a predicate written from docs/reference/signature.md; AST comparison of emitted signatures; rapid longer signatures",
  level="Complete within 0-4 parameters / 0-3 results for methods and the stated smaller bounds for variables and custom functions; sampled beyond. The predicate is independent of goverter's parser.",
  note="Generic / unexported / non-function references are not part of the enumeration (C13's fuzzers exercise them for crashes only).",
  design="5/C14"),
 "C19": dict(
  engine="E-gen",
  technique="property-based differential testing: rapid comment-layout generator with an independent extractor over the layout model, compared with comments.ParseDocs (public API)",
  level="Generated layouts over all declaration kinds and comment styles; the two extractors must agree on which declarations are converters and on every setting line in order; non-attached comments must not matter. Exploration.",
  note="The independent extractor never parses Go: it knows what it placed where.",
  design="5/C19"),
}

def main():
    hooks_commits = subprocess.run(["git", "-C", "/repo", "log", "--format=%h %s"], capture_output=True, text=True).stdout.splitlines()
    hook = [l.split()[0] for l in hooks_commits if l.split(" ", 1)[1].startswith("verif hooks")]
    checks = []
    for pid in ALL:
        c = CHECKS.get(pid)
        if not c:
            continue
        checks.append({
            "property_id": pid,
            "quick_cmd": "./check %s --tier quick" % pid,
            "thorough_cmd": "./check %s --tier thorough" % pid,
            "evidence_file": "/verif/evidence/%s.json" % pid,
            "replay_cmd_template": "./check %s --replay {path}" % pid,
            "engine": c["engine"],
            "level_claimed": {"category": "exploration", "text": c["level"], "design_ref": "DESIGN.md section " + c["design"]},
            "level_note": c["note"],
            "technique": c["technique"],
        })
    na = [{"property_id": p, "reason": "check not built yet (work in progress; planned per DESIGN.md section 5)"} for p in ALL if p not in CHECKS]
    m = {
        "version": 1,
        "setup_cmd": "cd /verif/harness && GOFLAGS=-mod=mod GOPROXY=off GOSUMDB=off GOTOOLCHAIN=local go vet -tags verif ./... >/dev/null && cd /verif && ./check --warm && echo setup ok",
        "hooks": {
            "guard": "verif (Go build tag)",
            "enable": "go test/build -tags verif (the harness module replaces github.com/jmattheis/goverter by /repo)",
            "baseline_off_cmd": "cd /repo && go build ./... && go test -vet=off -count=1 -timeout 25m ./...",
            "source_commits": hook,
            "add_only": True,
        },
        "engines": [
            {"name": "E-gen", "path": "harness/vh/run.go", "serves_properties": ["C03", "C12", "C13", "C14", "C19"], "kind_free_text": "in-process goverter: one package load, then config parse + generation per converter under recover()"},
            {"name": "E-run", "path": "harness/vh", "serves_properties": ["C01", "C02", "C04", "C05", "C06", "C07", "C08", "C10", "C11", "C18"], "kind_free_text": "generate, compile and execute: scratch module + generated rapid driver comparing generated code with a reflective reference"},
            {"name": "E-cli", "path": "harness/vh", "serves_properties": ["C09", "C15", "C16", "C17"], "kind_free_text": "goverter CLI built from the tree, run in fresh processes on scratch trees with directory snapshots"},
        ],
        "checks": checks,
        "not_applicable": na,
        "notes": "All checks: ./check <ID> [--tier quick|thorough] [--replay F]; VERIF_SEED selects the rapid seeds (pure function of tree, seed and tier); exit 0 held / 1 VIOLATION / 2 infrastructure or inconclusive. Known findings: /verif/known_findings.json.",
    }
    json.dump(m, open(os.path.join(V, "MANIFEST.json"), "w"), indent=1)
    try:
        import jsonschema
        jsonschema.validate(m, json.load(open("/root/.vp/MANIFEST.schema.json")))
        print("MANIFEST.json valid, %d checks, %d not claimed" % (len(checks), len(na)))
    except ImportError:
        print("written (jsonschema not available to validate)")

if __name__ == "__main__":
    main()
